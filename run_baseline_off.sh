#!/bin/sh
# Runs the repository's own test suite with the verif guard OFF, without writing to /repo.
set -e
S=$(mktemp -d)
trap 'rm -rf "$S"' EXIT
cp /repo/go.mod "$S/repo.mod"; cp /repo/go.sum "$S/repo.sum"
cd /repo
export GOFLAGS=-mod=mod GOPROXY=off
unset GOSUMDB GOTOOLCHAIN || true
go test -modfile="$S/repo.mod" -json -vet=off -count=1 -timeout 25m ./...
