#!/usr/bin/env python3
"""Regenerates /verif/MANIFEST.json from the table below (maintainer tool, not run by checks)."""
import json, subprocess

TECH = "contract-based deductive verification: VCs generated over go/ssa of the working tree from //@ contracts, discharged by z3 4.8/5.1 and cvc5"
NOTE_COMMON = " Trusted: x/tools go/ssa, the vcgo generator, the SMT solvers, the extern/assumed contracts and abstractions listed in the evidence file."

CLAIMS = {}
def claim(pid, text, note):
    CLAIMS[pid] = (text, note)

NA = {}
def na(pid, reason):
    NA[pid] = reason

exec(open('/verif/tools/claims.py').read())

props = [json.loads(l) for l in open('/verif/properties.jsonl')]
hooks = subprocess.run(['git','-C','/repo','log','--format=%H %s'],capture_output=True,text=True).stdout.splitlines()
hook_commits = [l.split()[0] for l in hooks if ' verif hooks' in l]
m = {
 "version": 1,
 "setup_cmd": "./setup.sh",
 "hooks": {"guard": "verif", "enable": "-tags verif: contracts (//@ comments), pure specification functions and replay builders live in zz_verif_*.go files that only compile with the tag; no existing file is edited", "baseline_off_cmd": "./run_baseline_off.sh", "source_commits": hook_commits, "add_only": True},
 "engines": [{"name": "vcgo", "path": "engine", "serves_properties": sorted(CLAIMS), "kind_free_text": "verification-condition generator over go/ssa (NaiveForm) of /repo's current working tree; contracts as //@ comment blocks in build-tagged files in /repo; obligations discharged by z3 4.8.12, z3 5.1.0, cvc5 1.0.3; counterexamples replayed on the real code with go test -overlay"}],
 "checks": [],
 "not_applicable": [],
 "notes": "See DESIGN.md. baseline/obligations.json lists the obligations claimed (discharged on the unchanged tree); known_findings.json lists recorded genuine defects."
}
for p in props:
    pid = p["id"]
    if pid in CLAIMS:
        text, note = CLAIMS[pid]
        m["checks"].append({"property_id": pid,
          "quick_cmd": "./bin/vcgo check --property %s --tier quick" % pid,
          "thorough_cmd": "./bin/vcgo check --property %s --tier thorough" % pid,
          "evidence_file": "/verif/evidence/%s.json" % pid,
          "replay_cmd_template": "./bin/vcgo replay {path}",
          "engine": "vcgo",
          "level_claimed": {"category": "proof", "text": text, "design_ref": "DESIGN.md §8 " + pid},
          "level_note": note + NOTE_COMMON,
          "technique": TECH})
    else:
        m["not_applicable"].append({"property_id": pid, "reason": NA.get(pid, "contracts for this property are not written yet in this round; not claimed")})
json.dump(m, open('/verif/MANIFEST.json', 'w'), indent=1)
print("claimed:", sorted(CLAIMS), "not applicable:", [x["property_id"] for x in m["not_applicable"]])
