#!/bin/sh
# usage: try_mutation.sh <property,...> <sed-expression> <file under /repo>
# Applies a one-line mutation to /repo, runs the quick checks, and reverts.
props=$1; expr=$2; file=$3
cd /repo || exit 2
cp "$file" /tmp/mut.bak
sed -i "$expr" "$file"
if cmp -s "$file" /tmp/mut.bak; then echo "mutation did not apply"; exit 2; fi
git diff --stat -- "$file" | tail -1
for p in $(echo $props | tr , ' '); do
  (cd /verif && ./bin/vcgo check --property $p 2>&1 | grep -E "VIOLATION|^property" | cut -c1-260)
done
cp /tmp/mut.bak "$file"
