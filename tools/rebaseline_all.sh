#!/bin/sh
# maintainer: rewrite every claimed property's baseline on the unchanged tree; print only warnings
cd /verif
for p in $(python3 -c "import json;print(' '.join(c['property_id'] for c in json.load(open('MANIFEST.json'))['checks']))" 2>/dev/null || echo); do
  ./bin/vcgo check --property $p --write-baseline 2>&1 | grep -E 'WARNING|tool limit|^baseline' 
done
