#!/bin/sh
# usage: seed_run.sh <seed-dir-under-/verif/seeded> <prop,prop,...>
# Applies the seeded change to /repo, runs the quick checks of the given properties, reverts /repo.
seed=/verif/seeded/$1; props=$2
cd /repo || exit 2
if ! git diff --quiet; then echo "repo not clean"; exit 2; fi
git apply "$seed/patch.diff" || { echo "patch does not apply to /repo"; exit 2; }
for p in $(echo $props | tr , ' '); do
  (cd /verif && ./bin/vcgo check --property $p 2>&1 | grep -E "VIOLATION|^property" | cut -c1-230)
done
git checkout -- .
