#!/bin/sh
# Runs every claimed quick check on the current tree and validates the evidence files (maintainer tool).
cd /verif || exit 2
rc=0
for p in $(python3 -c "import json; print(' '.join(c['property_id'] for c in json.load(open('MANIFEST.json'))['checks']))"); do
  out=$(./bin/vcgo check --property $p 2>&1)
  code=$?
  echo "$out" | grep -E "^property|VIOLATION|ERROR" | cut -c1-220
  [ $code -ne 0 ] && rc=1
done
python3-vt - <<'PY'
import json,jsonschema,glob
s=json.load(open('/root/.vp/EVIDENCE.schema.json'))
for f in sorted(glob.glob('/verif/evidence/*.json')):
    d=json.load(open(f))
    try:
        jsonschema.validate(d,s)
        c=d['coverage']
        assert c['obligations']==c['discharged'], (f, c['obligations'], c['discharged'])
    except Exception as e:
        print("EVIDENCE PROBLEM", f, str(e)[:200])
jsonschema.validate(json.load(open('/verif/MANIFEST.json')),json.load(open('/root/.vp/MANIFEST.schema.json')))
print("evidence and manifest validated")
PY
exit $rc
