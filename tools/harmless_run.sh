#!/bin/sh
# usage: harmless_run.sh [patch ...]      (maintainer tool; default: every /verif/harmless/*.diff)
# The no-false-alarm corpus: behaviour-preserving edits of functions under contract (renamed locals,
# reordered independent statements, if/else instead of switch, a helper extracted, a log line moved).
# Each patch is applied to a scratch copy of /repo, the project's own tests are run on the copy, and every
# property's quick check runs against the copy (VERIF_REPO; verdict lines only, /verif is not written).
# Any VIOLATION line is a false alarm of the machinery.
set -u
[ $# -gt 0 ] || set -- /verif/harmless/*.diff
scratch=$(mktemp -d /tmp/harmless.XXXXXX)
rc=0
for p in "$@"; do
  rm -rf $scratch/repo; mkdir -p $scratch/repo
  rsync -a --exclude .git /repo/ $scratch/repo/
  (cd $scratch/repo && patch -p1 -s < $p) || { echo "$(basename $p): does not apply"; rc=1; continue; }
  (cd $scratch/repo && cp go.mod $scratch/repo.mod && cp go.sum $scratch/repo.sum && GOFLAGS=-mod=mod GOPROXY=off go build -modfile=$scratch/repo.mod ./... ) >/dev/null 2>&1 || { echo "$(basename $p): does not build"; rc=1; continue; }
  pre=$(basename $p | cut -d_ -f1)
  ids=$(grep "^$pre " /verif/harmless/props.txt | cut -d' ' -f2 | tr , ' ')
  [ -n "$ids" ] && [ "$ids" != all ] || ids=$(python3 -c "import json;print(' '.join(json.loads(l)['id'] for l in open('/verif/properties.jsonl')))")
  out=$(for id in $ids; do
    VERIF_REPO=$scratch/repo /verif/bin/vcgo check --property $id --selftest-child 2>&1 | grep VIOLATION
  done)
  lim=$(grep "^$pre " /verif/harmless/props.txt | cut -d' ' -f3)
  if [ -n "$out" ] && [ "$lim" = documented-limit ]; then echo "$(basename $p): alarms (documented limit)"; echo "$out" | cut -c1-220
  elif [ -n "$out" ]; then echo "$(basename $p): FALSE ALARM"; echo "$out" | cut -c1-220; rc=1
  else echo "$(basename $p): quiet"; fi
done
rm -rf $scratch
exit $rc
