#!/bin/sh
# usage: seed_confirm.sh <worktree> <pkg> <demo-file-in-seed_out> <test-regex>
# Confirms a seeded change in its scratch worktree: suite passes with the change (demo absent),
# demo fails with the change, demo passes without it.
wt=$1; pkg=$2; demo=$3; re=$4
cd $wt || exit 2
S=$(mktemp -d); cp go.mod $S/repo.mod; cp go.sum $S/repo.sum
export GOFLAGS=-mod=mod GOPROXY=off
git checkout -q -- . 2>/dev/null; rm -f $pkg/zz_seed_demo_test.go
git apply seed_out/patch.diff || { echo "patch does not apply"; exit 2; }
echo "--- suite with change (demo absent)"; go test -modfile=$S/repo.mod -vet=off -count=1 ./... 2>&1 | tail -6
cp seed_out/$demo $pkg/zz_seed_demo_test.go
echo "--- demo with change"; go test -modfile=$S/repo.mod -vet=off -count=1 -run "$re" ./$pkg/ 2>&1 | tail -4
git apply -R seed_out/patch.diff
echo "--- demo without change"; go test -modfile=$S/repo.mod -vet=off -count=1 -run "$re" ./$pkg/ 2>&1 | tail -3
rm -rf $S
