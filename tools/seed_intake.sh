#!/bin/sh
# usage: seed_intake.sh <worktree> <seed-name>      (maintainer tool)
# Confirms a sub-agent's seeded change in its scratch worktree (suite passes with the change and the
# demonstration absent; the demonstration fails with the change and passes without it) and files
# patch, demonstration and notes under /verif/seeded/<seed-name>/. meta.json is written by hand afterwards.
wt=$1; name=$2
out=$wt/seed_out
[ -f $out/patch.diff ] || { echo "no patch.diff in $out"; exit 2; }
pkg=$(sed -n 1p $out/demo_path.txt); re=$(sed -n 2p $out/demo_path.txt)
hold=$(mktemp -d)
# keep Go files out of the tree while the suite runs
for f in $out/*.go; do [ -f "$f" ] && mv "$f" $hold/; done
demo=$(ls $hold/*.go | head -1)
cp $demo $out/demo.go.txt
sh /verif/tools/seed_confirm.sh $wt $pkg demo.go.txt "$re" 2>&1 | grep -E '^(---|ok|FAIL|panic|patch)'
d=/verif/seeded/$name
mkdir -p $d
cp $out/patch.diff $d/patch.diff
cp $demo $d/demo_test.go.txt
cp $out/notes.md $d/notes.md 2>/dev/null
cp $out/demo_path.txt $d/demo_path.txt
rm -rf $hold
