claim("C05",
 "Proved for all inputs: the four decision functions of the default retry policy equal the documented decision table (every retry count, every field value of the timeout/unavailable messages). Loop-free, full-domain obligations.",
 "Not reached: whole-history statements (an idempotent request succeeds whenever some host answers) are not decided by per-function contracts.")
claim("C15",
 "Proved for all states: roundRobinQueryPlan.Next returns hosts[(offset+index) mod n] (mathematical arithmetic) and then nil; NewQueryPlan snapshots the published list with index 0 and the next rotation offset; OnEvent replaces the published list without writing any pre-existing backing array (frame condition), keeps the lock discipline and the type invariant.",
 "Known finding recorded: rotation is not consecutive across the 2^32 counter wrap. 'Exactly once' follows from the proved formula by the bijection of k -> (o+k) mod n on [0,n) (paper argument). Concurrency: OnEvent is verified as a monitor operation; plans racing with events are covered by the frame condition only.")
