#!/bin/sh
# Build the VC generator from the vendored sources; offline.
set -e
cd "$(dirname "$0")/engine"
export GOFLAGS=-mod=vendor GOPROXY=off
unset GOSUMDB GOTOOLCHAIN || true
mkdir -p ../bin
go build -o ../bin/vcgo .
echo "vcgo built"
