package main

import (
	"fmt"
	"io"
	"os"
	"path/filepath"
	"strings"

	"golang.org/x/tools/go/packages"
	"golang.org/x/tools/go/ssa"
	"golang.org/x/tools/go/ssa/ssautil"
)

// Program is the loaded repository: typed ASTs and SSA of the current working tree.
type Program struct {
	RepoDir string
	Scratch string // scratch dir holding the -modfile copy
	Pkgs    []*packages.Package
	SSA     *ssa.Program
	SSAPkgs map[string]*ssa.Package // by package path
	ByPath  map[string]*packages.Package
	ModPath string
}

var repoPkgs = []string{"./proxy", "./proxycore", "./codecs", "./parser", "./astra"}

func repoDir() string {
	if d := os.Getenv("VERIF_REPO"); d != "" {
		return d
	}
	return "/repo"
}

func copyFile(src, dst string) error {
	in, err := os.Open(src)
	if err != nil {
		return err
	}
	defer in.Close()
	out, err := os.Create(dst)
	if err != nil {
		return err
	}
	defer out.Close()
	_, err = io.Copy(out, in)
	return err
}

// goEnv is the exact environment every go invocation gets (see DESIGN §1).
func goEnv(scratch string) []string {
	env := []string{}
	for _, e := range os.Environ() {
		if strings.HasPrefix(e, "GOFLAGS=") || strings.HasPrefix(e, "GOPROXY=") || strings.HasPrefix(e, "GOSUMDB=") || strings.HasPrefix(e, "GOTOOLCHAIN=") || strings.HasPrefix(e, "GONOSUMDB=") || strings.HasPrefix(e, "GONOSUMCHECK=") {
			continue
		}
		env = append(env, e)
	}
	env = append(env, "GOFLAGS=-mod=mod", "GOPROXY=off", "GOTOOLCHAIN=auto")
	return env
}

func makeScratch() (string, error) {
	base := os.Getenv("TMPDIR")
	if base == "" {
		base = "/tmp"
	}
	return os.MkdirTemp(base, "vcgo-")
}

func LoadProgram(tags string) (*Program, error) {
	dir := repoDir()
	scratch, err := makeScratch()
	if err != nil {
		return nil, err
	}
	if err := copyFile(filepath.Join(dir, "go.mod"), filepath.Join(scratch, "repo.mod")); err != nil {
		return nil, err
	}
	if err := copyFile(filepath.Join(dir, "go.sum"), filepath.Join(scratch, "repo.sum")); err != nil {
		return nil, err
	}
	flags := []string{"-modfile=" + filepath.Join(scratch, "repo.mod")}
	if tags != "" {
		flags = append(flags, "-tags="+tags)
	}
	cfg := &packages.Config{
		Mode:       packages.NeedName | packages.NeedFiles | packages.NeedCompiledGoFiles | packages.NeedImports | packages.NeedDeps | packages.NeedTypes | packages.NeedSyntax | packages.NeedTypesInfo | packages.NeedTypesSizes | packages.NeedModule,
		Dir:        dir,
		Env:        goEnv(scratch),
		BuildFlags: flags,
		Tests:      false,
	}
	pkgs, err := packages.Load(cfg, repoPkgs...)
	if err != nil {
		return nil, err
	}
	collect := func() (n int, onlyReplay bool, files map[string]bool, first string) {
		onlyReplay = true
		files = map[string]bool{}
		packages.Visit(pkgs, nil, func(p *packages.Package) {
			for _, e := range p.Errors {
				n++
				if first == "" {
					first = e.Error()
				}
				f := e.Pos
				if i := strings.Index(f, ":"); i >= 0 {
					f = f[:i]
				}
				if filepath.Base(f) == "zz_verif_replay.go" {
					files[f] = true
				} else {
					onlyReplay = false
				}
			}
		})
		return
	}
	nerr, onlyReplay, badFiles, first := collect()
	replayDisabled := false
	if nerr > 0 && onlyReplay && len(badFiles) > 0 {
		// only the replay builders (test scaffolding that names struct fields) no longer compile: verify
		// without them - counterexamples of the affected package are then not replayed
		cfg.Overlay = map[string][]byte{}
		for f := range badFiles {
			cfg.Overlay[f] = []byte("//go:build verif\n\npackage " + filepath.Base(filepath.Dir(f)) + "\n")
		}
		fmt.Fprintln(os.Stderr, "note: replay builders disabled (they do not compile against this tree):", first)
		pkgs, err = packages.Load(cfg, repoPkgs...)
		if err != nil {
			return nil, err
		}
		nerr, _, _, first = collect()
		replayDisabled = true
	}
	if nerr > 0 {
		fmt.Fprintln(os.Stderr, "load error:", first)
		return nil, fmt.Errorf("%d package load errors, first: %s", nerr, first)
	}
	_ = replayDisabled
	prog, spkgs := ssautil.AllPackages(pkgs, ssa.NaiveForm|ssa.GlobalDebug|ssa.InstantiateGenerics)
	prog.Build()
	p := &Program{RepoDir: dir, Scratch: scratch, Pkgs: pkgs, SSA: prog, SSAPkgs: map[string]*ssa.Package{}, ByPath: map[string]*packages.Package{}}
	for i, pk := range pkgs {
		p.SSAPkgs[pk.PkgPath] = spkgs[i]
		p.ByPath[pk.PkgPath] = pk
		if pk.Module != nil {
			p.ModPath = pk.Module.Path
		}
	}
	return p, nil
}

func (p *Program) Cleanup() {
	if p.Scratch != "" {
		os.RemoveAll(p.Scratch)
	}
}

// FindFunc resolves "pkg.Func", "pkg.Type.Method" or "pkg.Func$1" (short package name) to an SSA function.
func (p *Program) FindFunc(name string) *ssa.Function {
	parts := strings.Split(name, ".")
	if len(parts) < 2 {
		return nil
	}
	var sp *ssa.Package
	for path, s := range p.SSAPkgs {
		if filepath.Base(path) == parts[0] {
			sp = s
		}
	}
	if sp == nil {
		return nil
	}
	closure := ""
	last := parts[len(parts)-1]
	if i := strings.Index(last, "$"); i >= 0 {
		closure = last[i:]
		parts[len(parts)-1] = last[:i]
	}
	var fn *ssa.Function
	if len(parts) == 2 {
		fn = sp.Func(parts[1])
	} else {
		t := sp.Type(parts[1])
		if t == nil {
			return nil
		}
		for _, ptr := range []bool{false, true} {
			var ms = p.SSA.MethodSets.MethodSet(t.Type())
			if ptr {
				ms = p.SSA.MethodSets.MethodSet(typesPointer(t.Type()))
			}
			for i := 0; i < ms.Len(); i++ {
				if ms.At(i).Obj().Name() == parts[2] {
					fn = p.SSA.MethodValue(ms.At(i))
					// prefer the declared (non-wrapper) function
					if fn != nil && fn.Synthetic != "" {
						if d := p.SSA.FuncValue(ms.At(i).Obj().(*typesFunc)); d != nil {
							fn = d
						}
					}
					break
				}
			}
			if fn != nil {
				break
			}
		}
	}
	if fn == nil || closure == "" {
		return fn
	}
	for _, seg := range strings.Split(closure[1:], "$") {
		var idx int
		fmt.Sscanf(seg, "%d", &idx)
		if idx < 1 || idx > len(fn.AnonFuncs) {
			return nil
		}
		fn = fn.AnonFuncs[idx-1]
	}
	return fn
}
