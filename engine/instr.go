package main

import (
	"fmt"
	"go/constant"
	"go/token"
	"go/types"
	"math/big"
	"sort"
	"strings"

	"golang.org/x/tools/go/ssa"
)

func constantBool(c *ssa.Const) bool     { return constant.BoolVal(c.Value) }
func constantString(c *ssa.Const) string { return constant.StringVal(c.Value) }
func constantBig(c *ssa.Const) *big.Int {
	v := constant.ToInt(c.Value)
	if v.Kind() != constant.Int {
		return big.NewInt(0)
	}
	if i, ok := constant.Int64Val(v); ok {
		return big.NewInt(i)
	}
	b, _ := new(big.Int).SetString(v.ExactString(), 10)
	return b
}

// ---------- integer arithmetic (machine semantics) ----------

func basicOf(t types.Type) *types.Basic {
	b, _ := under(t).(*types.Basic)
	return b
}

func wrapInt(x *Term, t types.Type) *Term {
	b := basicOf(t)
	if b == nil {
		return x
	}
	lo, hi, bits, signed, ok := intRange(b, stdSizes)
	if !ok {
		return x
	}
	if x.IsInt() && x.Int.Cmp(lo) >= 0 && x.Int.Cmp(hi) <= 0 {
		return x
	}
	m := BigLit(pow2(bits))
	if !signed {
		return EMod(x, m)
	}
	h := BigLit(pow2(bits - 1))
	return Sub(EMod(Add(x, h), m), h)
}

// wrapNear wraps a value known to lie within one period of the type's range (sum or difference of
// two in-range values): an ite is exact there and far easier for the solvers than mod.
func wrapNear(x *Term, t types.Type) *Term {
	b := basicOf(t)
	if b == nil {
		return x
	}
	lo, hi, bits, _, ok := intRange(b, stdSizes)
	if !ok {
		return x
	}
	if x.IsInt() {
		return wrapInt(x, t)
	}
	m := BigLit(pow2(bits))
	return Ite(Lt(BigLit(hi), x), Sub(x, m), Ite(Lt(x, BigLit(lo)), Add(x, m), x))
}

func isUnsigned(t types.Type) bool {
	b := basicOf(t)
	return b != nil && b.Info()&types.IsUnsigned != 0
}

func isIntT(t types.Type) bool {
	b := basicOf(t)
	return b != nil && b.Info()&types.IsInteger != 0
}

func isStringT(t types.Type) bool {
	b := basicOf(t)
	return b != nil && b.Info()&types.IsString != 0
}

func isBoolT(t types.Type) bool {
	b := basicOf(t)
	return b != nil && b.Info()&types.IsBoolean != 0
}

func truncDiv(a, b *Term, unsigned bool) (q, r *Term) {
	if unsigned {
		return EDiv(a, b), EMod(a, b)
	}
	nonneg := Le(Zero, a)
	q = Ite(nonneg, EDiv(a, b), Neg(EDiv(Neg(a), b)))
	r = Ite(nonneg, EMod(a, b), Neg(EMod(Neg(a), b)))
	return
}

func bitsOf(t types.Type) uint {
	b := basicOf(t)
	if b == nil {
		return 64
	}
	return uint(stdSizes.Sizeof(b) * 8)
}

// bitAndConst computes x & c arithmetically (x taken modulo 2^bits as unsigned).
func bitAndConst(x *Term, c *big.Int, bits uint) (*Term, bool) {
	if c.Sign() < 0 {
		c = new(big.Int).Add(c, pow2(bits))
	}
	if c.Sign() == 0 {
		return Zero, true
	}
	ux := EMod(x, BigLit(pow2(bits)))
	// contiguous mask 2^hi - 2^lo
	lo := uint(0)
	for c.Bit(int(lo)) == 0 {
		lo++
	}
	hi := lo
	for c.Bit(int(hi)) == 1 {
		hi++
	}
	if new(big.Int).Sub(pow2(hi), pow2(lo)).Cmp(c) == 0 {
		// ((x mod 2^hi) div 2^lo) * 2^lo
		return Mul(EDiv(EMod(ux, BigLit(pow2(hi))), BigLit(pow2(lo))), BigLit(pow2(lo))), true
	}
	if bits <= 16 {
		var sum *Term = Zero
		for i := uint(0); i < bits; i++ {
			if c.Bit(int(i)) == 1 {
				sum = Add(sum, Mul(EMod(EDiv(ux, BigLit(pow2(i))), IntLit(2)), BigLit(pow2(i))))
			}
		}
		return sum, true
	}
	return nil, false
}

func (ex *Exec) binop(st *State, fr *Frame, op token.Token, xv, yv Value, xt, rt types.Type, pos token.Pos) Value {
	switch op {
	case token.EQL:
		return Scalar{ex.valuesEqual(st, xv, yv, xt)}
	case token.NEQ:
		return Scalar{Not(ex.valuesEqual(st, xv, yv, xt))}
	}
	x, y := xv.(Scalar).T, yv.(Scalar).T
	if isStringT(xt) {
		switch op {
		case token.ADD:
			r := UF("sconcat", SStr, x, y)
			st.assume(Eq(SLen(r), Add(SLen(x), SLen(y))))
			for _, f := range append(strFacts(x), strFacts(y)...) {
				st.assume(f)
			}
			return Scalar{r}
		case token.LSS:
			return Scalar{UF("strlt", SBool, x, y)}
		case token.GTR:
			return Scalar{UF("strlt", SBool, y, x)}
		case token.LEQ:
			return Scalar{Not(UF("strlt", SBool, y, x))}
		case token.GEQ:
			return Scalar{Not(UF("strlt", SBool, x, y))}
		}
		tool("string op %s", op)
	}
	if !isIntT(xt) {
		// floats etc: opaque
		switch op {
		case token.LSS, token.GTR, token.LEQ, token.GEQ:
			return Scalar{UF("fcmp:"+op.String(), SBool, x, y)}
		}
		return Scalar{UF("fop:"+op.String(), SInt, x, y)}
	}
	uns := isUnsigned(xt)
	switch op {
	case token.ADD:
		return Scalar{wrapNear(Add(x, y), rt)}
	case token.SUB:
		return Scalar{wrapNear(Sub(x, y), rt)}
	case token.MUL:
		return Scalar{wrapInt(Mul(x, y), rt)}
	case token.QUO, token.REM:
		ex.emit(st, "safety", ex.srcLabel(fr.Fn, pos, "div"), Neq(y, Zero), pos, []string{"C17"})
		st.assume(Neq(y, Zero))
		q, r := truncDiv(x, y, uns)
		if op == token.QUO {
			return Scalar{wrapInt(q, rt)}
		}
		return Scalar{r}
	case token.LSS:
		return Scalar{Lt(x, y)}
	case token.LEQ:
		return Scalar{Le(x, y)}
	case token.GTR:
		return Scalar{Gt(x, y)}
	case token.GEQ:
		return Scalar{Ge(x, y)}
	case token.SHL:
		if y.IsInt() {
			k := y.Int.Uint64()
			if k >= uint64(bitsOf(rt)) {
				return Scalar{Zero}
			}
			return Scalar{wrapInt(Mul(x, BigLit(pow2(uint(k)))), rt)}
		}
		bits := bitsOf(rt)
		res := Zero
		for k := int(bits) - 1; k >= 0; k-- {
			res = Ite(Eq(y, IntLit(int64(k))), wrapInt(Mul(x, BigLit(pow2(uint(k)))), rt), res)
		}
		ex.emit(st, "safety", ex.srcLabel(fr.Fn, pos, "shift"), Le(Zero, y), pos, []string{"C17"})
		return Scalar{res}
	case token.SHR:
		if y.IsInt() {
			k := y.Int.Uint64()
			if k >= uint64(bitsOf(rt)) {
				if uns {
					return Scalar{Zero}
				}
				return Scalar{Ite(Lt(x, Zero), IntLit(-1), Zero)}
			}
			return Scalar{EDiv(x, BigLit(pow2(uint(k))))}
		}
		bits := bitsOf(rt)
		var res *Term
		if uns {
			res = Zero
		} else {
			res = Ite(Lt(x, Zero), IntLit(-1), Zero)
		}
		for k := int(bits) - 1; k >= 0; k-- {
			res = Ite(Eq(y, IntLit(int64(k))), EDiv(x, BigLit(pow2(uint(k)))), res)
		}
		ex.emit(st, "safety", ex.srcLabel(fr.Fn, pos, "shift"), Le(Zero, y), pos, []string{"C17"})
		return Scalar{res}
	case token.AND, token.OR, token.XOR, token.AND_NOT:
		bits := bitsOf(rt)
		var c *big.Int
		var v *Term
		if y.IsInt() {
			c, v = y.Int, x
		} else if x.IsInt() && op != token.AND_NOT {
			c, v = x.Int, y
		}
		if x.IsInt() && y.IsInt() {
			a, b := toUnsigned(x.Int, bits), toUnsigned(y.Int, bits)
			var r *big.Int
			switch op {
			case token.AND:
				r = new(big.Int).And(a, b)
			case token.OR:
				r = new(big.Int).Or(a, b)
			case token.XOR:
				r = new(big.Int).Xor(a, b)
			default:
				r = new(big.Int).AndNot(a, b)
			}
			return Scalar{wrapInt(BigLit(r), rt)}
		}
		if c != nil && op != token.XOR {
			if and, ok := bitAndConst(v, c, bits); ok {
				switch op {
				case token.AND:
					return Scalar{wrapInt(and, rt)}
				case token.OR:
					cu := toUnsigned(c, bits)
					return Scalar{wrapInt(Sub(Add(EMod(v, BigLit(pow2(bits))), BigLit(cu)), and), rt)}
				case token.AND_NOT:
					return Scalar{wrapInt(Sub(EMod(v, BigLit(pow2(bits))), and), rt)}
				}
			}
		}
		r := UF("bit:"+op.String()+fmt.Sprint(bits), SInt, x, y)
		lo, hi, _, _, _ := intRange(basicOf(rt), stdSizes)
		st.assume(And(Le(BigLit(lo), r), Le(r, BigLit(hi))))
		ex.note("bitwise " + op.String() + " abstracted as uninterpreted in " + specName(fr.Fn))
		return Scalar{r}
	}
	tool("binop %s", op)
	return nil
}

func toUnsigned(v *big.Int, bits uint) *big.Int {
	if v.Sign() >= 0 {
		return v
	}
	return new(big.Int).Add(v, pow2(bits))
}

func (ex *Exec) valuesEqual(st *State, a, b Value, t types.Type) *Term {
	switch x := a.(type) {
	case *ClosureV, FuncV, BoundV:
		// comparison of func with nil only
		return False
	case IfaceV:
		y, ok := b.(IfaceV)
		if !ok {
			tool("iface compared with %T", b)
		}
		return And(Eq(x.Tag, y.Tag), Eq(x.Val, y.Val))
	case SliceV:
		y := b.(SliceV)
		if ex.specEq {
			// specification equality: same header (same backing array, window and capacity)
			return And(Eq(x.Arr, y.Arr), Eq(x.Off, y.Off), Eq(x.Len, y.Len), Eq(x.Cap, y.Cap))
		}
		// in Go only comparison with nil is legal
		if y.Arr.IsInt() && y.Arr.Int.Sign() == 0 {
			return Eq(x.Arr, Zero)
		}
		return Eq(y.Arr, Zero)
	}
	if s, ok := b.(Scalar); ok {
		if _, isF := a.(Scalar); !isF {
			if _, isP := a.(*PtrV); !isP {
				_ = s
			}
		}
	}
	fa, fb := flatten(a), flatten(b)
	if len(fa) != len(fb) {
		tool("equality arity mismatch")
	}
	var cs []*Term
	for i := range fa {
		if fa[i].Sort.Kind == KArr {
			n := int64(-1)
			if av, ok := a.(ArrayV); ok {
				n = av.N
			}
			if n >= 0 && n <= 32 {
				for k := int64(0); k < n; k++ {
					cs = append(cs, Eq(Select(fa[i], IntLit(k)), Select(fb[i], IntLit(k))))
				}
				continue
			}
			bv := Fresh("k", SInt)
			cs = append(cs, Forall([]*Term{bv}, Implies(And(Le(Zero, bv), Lt(bv, IntLit(n))), Eq(Select(fa[i], bv), Select(fb[i], bv)))))
			continue
		}
		cs = append(cs, Eq(fa[i], fb[i]))
	}
	return And(cs...)
}

func (ex *Exec) doUnOp(st *State, fr *Frame, u *ssa.UnOp) {
	switch u.Op {
	case token.MUL:
		p := ex.asPtr(st, fr, u.X)
		ex.checkDeref(st, fr, p, u.Pos(), "load")
		ex.checkGuardedRead(st, fr, p, u.Pos())
		fr.Regs[u] = ex.load(st, p)
	case token.NOT:
		fr.Regs[u] = Scalar{Not(ex.val(st, fr, u.X).(Scalar).T)}
	case token.SUB:
		x := ex.val(st, fr, u.X).(Scalar).T
		if isIntT(u.Type()) {
			fr.Regs[u] = Scalar{wrapInt(Neg(x), u.Type())}
		} else {
			fr.Regs[u] = Scalar{UF("fneg", SInt, x)}
		}
	case token.XOR:
		x := ex.val(st, fr, u.X).(Scalar).T
		// ^x = -x-1 (two's complement), wrapped
		fr.Regs[u] = Scalar{wrapInt(Sub(Neg(x), One), u.Type())}
	case token.ARROW:
		// channel receive: result unconstrained
		ex.note("chan recv havocked in " + specName(fr.Fn))
		if u.CommaOk {
			et := u.Type().(*types.Tuple).At(0).Type()
			v := freshValue("recv", et)
			ex.assumeInv(st, et, v)
			okv := Fresh("recvok", SBool)
			if ci, cet := ex.chanInvOf(u.X); ci != nil {
				st.assume(Implies(okv, ex.chanValueFact(st, fr, ci, v, cet, u.X)))
			}
			if cv, ok := ex.val(st, fr, u.X).(Scalar); ok {
				// ok == false happens only on a closed channel
				st.assume(Or(okv, Select(st.heapGet(chanClosedClass, SArr(SInt, SBool)), cv.T)))
			}
			ex.viewReceived(st, fr, u.X, v, okv)
			fr.Regs[u] = TupleV{[]Value{v, Scalar{okv}}}
		} else {
			v := freshValue("recv", u.Type())
			ex.assumeInv(st, u.Type(), v)
			// the value was sent (and satisfies the channel's invariant), or the channel is closed
			if ci, cet := ex.chanInvOf(u.X); ci != nil {
				fact := ex.chanValueFact(st, fr, ci, v, cet, u.X)
				if cv, ok := ex.val(st, fr, u.X).(Scalar); ok && !ex.chanOpenOf(u.X) {
					fact = Or(fact, Select(st.heapGet(chanClosedClass, SArr(SInt, SBool)), cv.T))
				}
				st.assume(fact)
			}
			ex.viewReceived(st, fr, u.X, v, True)
			fr.Regs[u] = v
		}
	default:
		tool("unop %s", u.Op)
	}
}

func (ex *Exec) convert(st *State, v Value, from, to types.Type) Value {
	switch {
	case isIntT(from) && isIntT(to):
		return Scalar{wrapInt(v.(Scalar).T, to)}
	case isStringT(to) && isIntT(from):
		return Scalar{UF("str:ofrune", SStr, v.(Scalar).T)}
	case isStringT(to):
		if s, ok := v.(SliceV); ok {
			et := under(from).(*types.Slice).Elem()
			cls := "[]" + typeName(et)
			mem := Select(st.heapGet(cls, heapSort(2, SInt)), s.Arr)
			r := UF("str:ofbytes", SStr, mem, s.Off, s.Len)
			st.assume(Eq(SLen(r), s.Len))
			for _, f := range strFacts(r) {
				st.assume(f)
			}
			return Scalar{r}
		}
		return v
	case isStringT(from):
		if sl, ok := under(to).(*types.Slice); ok {
			s := v.(Scalar).T
			arr := ex.alloc(st)
			n := SLen(s)
			for _, f := range strFacts(s) {
				st.assume(f)
			}
			cls := "[]" + typeName(sl.Elem())
			h := st.heapGet(cls, heapSort(2, SInt))
			k := Fresh("k", SInt)
			// content: forall k in [0,n): mem[arr][k] == sat(s,k)
			st.assume(Forall([]*Term{k}, Implies(And(Le(Zero, k), Lt(k, n)), Eq(Select(Select(h, arr), k), UF("sat", SInt, s, k)))))
			return SliceV{arr, Zero, n, n}
		}
		return v
	}
	if _, ok := under(to).(*types.Pointer); ok {
		return v
	}
	if b := basicOf(to); b != nil && b.Info()&types.IsFloat != 0 {
		return Scalar{UF("tofloat", SInt, flatten(v)[0])}
	}
	if b := basicOf(from); b != nil && b.Info()&types.IsFloat != 0 && isIntT(to) {
		r := UF("fromfloat:"+typeName(to), SInt, v.(Scalar).T)
		ex.assumeInv(st, to, Scalar{r})
		return Scalar{r}
	}
	return ex.retag(v, to)
}

func (ex *Exec) retag(v Value, to types.Type) Value {
	if p, ok := v.(*PtrV); ok {
		if tp, ok := under(to).(*types.Pointer); ok {
			np := *p
			if np.Root == RObj && len(np.Path) == 0 {
				np.Elem = tp.Elem()
				np.RT = tp.Elem()
				np.Class = classOf(tp.Elem())
				if strings.HasPrefix(p.Class, "G:") {
					np.Class = p.Class
				}
			}
			return &np
		}
	}
	return v
}

// ---------- interfaces ----------

type typeTags struct {
	byKey map[string]int64
	byTag map[int64]types.Type
}

var tags = &typeTags{byKey: map[string]int64{}, byTag: map[int64]types.Type{}}

func typeKey(t types.Type) string { return types.TypeString(t, nil) }

func tagOf(t types.Type) int64 {
	k := typeKey(t)
	if id, ok := tags.byKey[k]; ok {
		return id
	}
	id := int64(len(tags.byKey) + 1)
	tags.byKey[k] = id
	tags.byTag[id] = t
	return id
}

// registerRuntimeTypes gives every type that can sit in an interface a stable tag.
func registerRuntimeTypes(p *Program) {
	var ts []types.Type
	for _, t := range p.SSA.RuntimeTypes() {
		ts = append(ts, t)
	}
	sort.Slice(ts, func(i, j int) bool { return typeKey(ts[i]) < typeKey(ts[j]) })
	for _, t := range ts {
		tagOf(t)
	}
}

func pointerShaped(t types.Type) bool {
	switch under(t).(type) {
	case *types.Pointer, *types.Map, *types.Chan, *types.Signature:
		return true
	}
	return false
}

func (ex *Exec) makeIface(st *State, v Value, t types.Type) Value {
	if _, ok := under(t).(*types.Interface); ok {
		return v
	}
	tag := IntLit(tagOf(t))
	fl := flatten(v)
	if pointerShaped(t) {
		return IfaceV{tag, fl[0]}
	}
	if len(fl) == 0 {
		return IfaceV{tag, Zero}
	}
	b := UF("box:"+typeName(t), SInt, fl...)
	for i, c := range comps(t) {
		st.assume(Eq(UF("unbox:"+typeName(t)+c.Suffix, c.Sort, b), fl[i]))
	}
	return IfaceV{tag, b}
}

func (ex *Exec) unbox(st *State, iv IfaceV, t types.Type) Value {
	if pointerShaped(t) {
		v, _ := unflatten(t, []*Term{iv.Val})
		return v
	}
	cs := comps(t)
	ts := make([]*Term, len(cs))
	for i, c := range cs {
		ts[i] = UF("unbox:"+typeName(t)+c.Suffix, c.Sort, iv.Val)
	}
	v, _ := unflatten(t, ts)
	ex.assumeInv(st, t, v)
	return v
}

// implementers lists the runtime type tags implementing iface.
func (ex *Exec) implementers(iface *types.Interface) []int64 {
	var out []int64
	for id, t := range tags.byTag {
		if _, isI := under(t).(*types.Interface); isI {
			continue
		}
		if types.Implements(t, iface) {
			out = append(out, id)
		}
	}
	sort.Slice(out, func(i, j int) bool { return out[i] < out[j] })
	return out
}

func (ex *Exec) assertOK(st *State, iv IfaceV, t types.Type) *Term {
	if it, ok := under(t).(*types.Interface); ok {
		if iv.Tag.IsInt() {
			dt := tags.byTag[iv.Tag.Int.Int64()]
			return BoolLit(dt != nil && types.Implements(dt, it))
		}
		if it.Empty() {
			return Neq(iv.Tag, Zero)
		}
		impl := ex.implementers(it)
		if len(impl) <= 48 {
			var alts []*Term
			for _, id := range impl {
				alts = append(alts, Eq(iv.Tag, IntLit(id)))
			}
			return Or(alts...)
		}
		return And(Neq(iv.Tag, Zero), UF("impl:"+typeName(t), SBool, iv.Tag))
	}
	return Eq(iv.Tag, IntLit(tagOf(t)))
}

func (ex *Exec) doTypeAssert(st *State, fr *Frame, x *ssa.TypeAssert) {
	iv := ex.val(st, fr, x.X).(IfaceV)
	ok := ex.assertOK(st, iv, x.AssertedType)
	var val Value
	if _, isI := under(x.AssertedType).(*types.Interface); isI {
		val = iv
	} else {
		val = ex.unbox(st, iv, x.AssertedType)
	}
	if x.CommaOk {
		z := flatten(zeroValue(x.AssertedType))
		fl := flatten(val)
		for i := range fl {
			fl[i] = Ite(ok, fl[i], z[i])
		}
		v, _ := unflatten(x.AssertedType, fl)
		fr.Regs[x] = TupleV{[]Value{v, Scalar{ok}}}
		return
	}
	ex.emit(st, "safety", ex.srcLabel(fr.Fn, x.Pos(), "typeassert"), ok, x.Pos(), []string{"C17"})
	st.assume(ok)
	fr.Regs[x] = val
}

// ---------- slices, arrays, indexes ----------

func (ex *Exec) doMakeSlice(st *State, fr *Frame, x *ssa.MakeSlice) {
	n := ex.val(st, fr, x.Len).(Scalar).T
	c := ex.val(st, fr, x.Cap).(Scalar).T
	ex.emit(st, "safety", ex.srcLabel(fr.Fn, x.Pos(), "makeslice"), And(Le(Zero, n), Le(n, c)), x.Pos(), []string{"C17"})
	st.assume(And(Le(Zero, n), Le(n, c)))
	arr := ex.alloc(st)
	et := under(x.Type()).(*types.Slice).Elem()
	ex.zeroBacking(st, arr, et)
	fr.Regs[x] = SliceV{arr, Zero, n, c}
}

// zeroBacking sets a fresh backing array to zero values.
func (ex *Exec) zeroBacking(st *State, arr *Term, et types.Type) {
	if isStructT(et) {
		return // struct elements live in object classes keyed by elemref; left unconstrained
	}
	cls := "[]" + typeName(et)
	z := flatten(zeroValue(et))
	for i, c := range comps(et) {
		h := st.heapGet(cls+c.Suffix, heapSort(2, c.Sort))
		st.Heap[cls+c.Suffix] = Store(h, arr, constArray(SArr(SInt, c.Sort), z[i]))
	}
}

func elemRef(et types.Type, arr, idx *Term) *Term {
	return UF("elemref:"+typeName(et), SInt, arr, idx)
}

func (ex *Exec) doIndexAddr(st *State, fr *Frame, x *ssa.IndexAddr) {
	idx := ex.val(st, fr, x.Index).(Scalar).T
	switch xt := under(x.X.Type()).(type) {
	case *types.Slice:
		s := ex.val(st, fr, x.X).(SliceV)
		ex.emit(st, "safety", ex.srcLabel(fr.Fn, x.Pos(), "index"), And(Le(Zero, idx), Lt(idx, s.Len)), x.Pos(), []string{"C17"})
		st.assume(And(Le(Zero, idx), Lt(idx, s.Len)))
		et := xt.Elem()
		if isStructT(et) {
			r := elemRef(et, s.Arr, Add(s.Off, idx))
			st.assume(Lt(r, Zero))
			fr.Regs[x] = objPtr(r, et)
			return
		}
		fr.Regs[x] = &PtrV{Root: RElem, Arr: s.Arr, Idx: Add(s.Off, idx), Elem: et}
	case *types.Pointer:
		at := under(xt.Elem()).(*types.Array)
		p := ex.asPtr(st, fr, x.X)
		ex.emit(st, "safety", ex.srcLabel(fr.Fn, x.Pos(), "index"), And(Le(Zero, idx), Lt(idx, IntLit(at.Len()))), x.Pos(), []string{"C17"})
		st.assume(And(Le(Zero, idx), Lt(idx, IntLit(at.Len()))))
		np := *p
		np.Path = append(append([]PathElem{}, p.Path...), PathElem{Field: -1, Index: idx})
		np.Elem = at.Elem()
		if p.Root == RObj && len(np.Path) > 2 {
			tool("deep array path")
		}
		fr.Regs[x] = &np
	default:
		tool("indexaddr on %s", x.X.Type())
	}
}

func (ex *Exec) doIndex(st *State, fr *Frame, x *ssa.Index) {
	idx := ex.val(st, fr, x.Index).(Scalar).T
	switch xt := under(x.X.Type()).(type) {
	case *types.Basic: // string
		s := ex.val(st, fr, x.X).(Scalar).T
		for _, f := range strFacts(s) {
			st.assume(f)
		}
		ex.emit(st, "safety", ex.srcLabel(fr.Fn, x.Pos(), "index"), And(Le(Zero, idx), Lt(idx, SLen(s))), x.Pos(), []string{"C17"})
		st.assume(And(Le(Zero, idx), Lt(idx, SLen(s))))
		c := SAt(s, idx)
		st.assume(And(Le(Zero, c), Le(c, IntLit(255))))
		fr.Regs[x] = Scalar{c}
	case *types.Array:
		av := ex.val(st, fr, x.X).(ArrayV)
		ex.emit(st, "safety", ex.srcLabel(fr.Fn, x.Pos(), "index"), And(Le(Zero, idx), Lt(idx, IntLit(xt.Len()))), x.Pos(), []string{"C17"})
		st.assume(And(Le(Zero, idx), Lt(idx, IntLit(xt.Len()))))
		var cs []*Term
		for _, c := range av.Comps {
			cs = append(cs, Select(c, idx))
		}
		v, _ := unflatten(xt.Elem(), cs)
		ex.assumeInv(st, xt.Elem(), v)
		fr.Regs[x] = v
	default:
		tool("index on %s", x.X.Type())
	}
}

func (ex *Exec) doSlice(st *State, fr *Frame, x *ssa.Slice) {
	get := func(v ssa.Value) *Term {
		if v == nil {
			return nil
		}
		return ex.val(st, fr, v).(Scalar).T
	}
	lo, hi, mx := get(x.Low), get(x.High), get(x.Max)
	if lo == nil {
		lo = Zero
	}
	label := ex.srcLabel(fr.Fn, x.Pos(), "slice")
	switch xt := under(x.X.Type()).(type) {
	case *types.Basic:
		s := ex.val(st, fr, x.X).(Scalar).T
		for _, f := range strFacts(s) {
			st.assume(f)
		}
		if hi == nil {
			hi = SLen(s)
		}
		g := And(Le(Zero, lo), Le(lo, hi), Le(hi, SLen(s)))
		ex.emit(st, "safety", label, g, x.Pos(), []string{"C17"})
		st.assume(g)
		r := UF("substr", SStr, s, lo, hi)
		if lo.IsInt() && lo.Int.Sign() == 0 && hi == SLen(s) {
			r = s
		}
		st.assume(Eq(SLen(r), Sub(hi, lo)))
		for _, f := range strFacts(r) {
			st.assume(f)
		}
		fr.Regs[x] = Scalar{r}
	case *types.Slice:
		s := ex.val(st, fr, x.X).(SliceV)
		if hi == nil {
			hi = s.Len
		}
		if mx == nil {
			mx = s.Cap
		}
		g := And(Le(Zero, lo), Le(lo, hi), Le(hi, mx), Le(mx, s.Cap))
		ex.emit(st, "safety", label, g, x.Pos(), []string{"C17"})
		st.assume(g)
		fr.Regs[x] = SliceV{s.Arr, Add(s.Off, lo), Sub(hi, lo), Sub(mx, lo)}
	case *types.Pointer: // *[N]T
		at := under(xt.Elem()).(*types.Array)
		p := ex.asPtr(st, fr, x.X)
		n := IntLit(at.Len())
		if hi == nil {
			hi = n
		}
		if mx == nil {
			mx = n
		}
		g := And(Le(Zero, lo), Le(lo, hi), Le(hi, mx), Le(mx, n))
		ex.emit(st, "safety", label, g, x.Pos(), []string{"C17"})
		st.assume(g)
		// the array object becomes a backing array: copy its content into the slice class
		arr := ex.arrayAsBacking(st, p, at)
		fr.Regs[x] = SliceV{arr, lo, Sub(hi, lo), Sub(mx, lo)}
	default:
		tool("slice of %s", x.X.Type())
	}
}

// doSliceToArrayPointer: (*[N]T)(s) and - through the load that follows - [N]T(s). The conversion panics
// when the slice is shorter than the array. Only the value idiom is modelled (every use of the pointer is
// a load): the result points at a fresh array object holding a copy of the first N elements, which is
// what the loads observe; a pointer that is kept or written through would alias the slice -> tool limit.
func (ex *Exec) doSliceToArrayPointer(st *State, fr *Frame, x *ssa.SliceToArrayPointer) {
	s := ex.val(st, fr, x.X).(SliceV)
	at := under(x.Type().(*types.Pointer).Elem()).(*types.Array)
	n := IntLit(at.Len())
	g := Le(n, s.Len)
	ex.emit(st, "safety", ex.srcLabel(fr.Fn, x.Pos(), "slice-to-array"), g, x.Pos(), []string{"C17"})
	st.assume(g)
	for _, r := range *x.Referrers() {
		if u, ok := r.(*ssa.UnOp); !ok || u.Op != token.MUL {
			if _, dbg := r.(*ssa.DebugRef); !dbg {
				tool("slice-to-array pointer that is not only loaded from")
			}
		}
	}
	et := at.Elem()
	av := freshValue("s2a", at).(ArrayV)
	if !isStructT(et) && at.Len() <= 64 {
		cls := "[]" + typeName(et)
		for i, c := range comps(et) {
			h := Select(st.heapGet(cls+c.Suffix, heapSort(2, c.Sort)), s.Arr)
			for k := int64(0); k < at.Len(); k++ {
				st.assume(Eq(Select(av.Comps[i], IntLit(k)), Select(h, Add(s.Off, IntLit(k)))))
			}
		}
	}
	ref := ex.alloc(st)
	ex.storeComps(st, classOf(at), at, ref, av)
	fr.Regs[x] = objPtr(ref, at)
}

// arrayAsBacking views a pointed-to array as a slice backing array. The array object and the
// backing store are linked only at creation (sound for the SSA idioms: varargs temporaries and
// buf[:] of a local), later writes through the array pointer are not mirrored -> tool limit if seen.
func (ex *Exec) arrayAsBacking(st *State, p *PtrV, at *types.Array) *Term {
	et := at.Elem()
	var arr *Term
	if p.Root == RObj && len(p.Path) == 0 {
		arr = p.Ref
	} else {
		arr = ex.alloc(st)
	}
	if isStructT(et) {
		return arr
	}
	av := ex.load(st, p).(ArrayV)
	cls := "[]" + typeName(et)
	for i, c := range comps(et) {
		h := st.heapGet(cls+c.Suffix, heapSort(2, c.Sort))
		st.Heap[cls+c.Suffix] = Store(h, arr, av.Comps[i])
	}
	return arr
}

// ---------- maps ----------

func mapClass(t types.Type) string { return "map:" + typeName(t) }

func (ex *Exec) mapSorts(mt *types.Map) (keySorts []*Sort) {
	for _, c := range comps(mt.Key()) {
		keySorts = append(keySorts, c.Sort)
	}
	return
}

func nestSort(keys []*Sort, elem *Sort) *Sort {
	s := elem
	for i := len(keys) - 1; i >= 0; i-- {
		s = SArr(keys[i], s)
	}
	return s
}

func selectN(a *Term, keys []*Term) *Term {
	for _, k := range keys {
		a = Select(a, k)
	}
	return a
}

func storeN(a *Term, keys []*Term, v *Term) *Term {
	if len(keys) == 0 {
		return v
	}
	return Store(a, keys[0], storeN(Select(a, keys[0]), keys[1:], v))
}

func (ex *Exec) mapKey(st *State, k Value, kt types.Type) []*Term {
	if _, ok := under(kt).(*types.Interface); ok {
		iv := k.(IfaceV)
		return []*Term{iv.Tag, iv.Val}
	}
	return flatten(k)
}

func (ex *Exec) initMap(st *State, t types.Type, ref *Term) {
	mt := under(t).(*types.Map)
	ks := ex.mapSorts(mt)
	cls := mapClass(t)
	hs := SArr(SInt, nestSort(ks, SBool))
	h := st.heapGet(cls+"#has", hs)
	empty := False
	var e *Term = empty
	for i := len(ks) - 1; i >= 0; i-- {
		var es *Sort = SBool
		if i < len(ks)-1 {
			es = nestSort(ks[i+1:], SBool)
		}
		e = constArray(SArr(ks[i], es), e)
	}
	st.Heap[cls+"#has"] = Store(h, ref, e)
	st.Heap[cls+"#len"] = Store(st.heapGet(cls+"#len", SArr(SInt, SInt)), ref, Zero)
}

func (ex *Exec) mapHas(st *State, t types.Type, ref *Term, key []*Term) *Term {
	mt := under(t).(*types.Map)
	ks := ex.mapSorts(mt)
	h := st.heapGet(mapClass(t)+"#has", SArr(SInt, nestSort(ks, SBool)))
	return selectN(Select(h, ref), key)
}

func (ex *Exec) mapGet(st *State, t types.Type, ref *Term, key []*Term) Value {
	mt := under(t).(*types.Map)
	ks := ex.mapSorts(mt)
	cs := comps(mt.Elem())
	ts := make([]*Term, len(cs))
	for i, c := range cs {
		h := st.heapGet(mapClass(t)+"#val"+c.Suffix, SArr(SInt, nestSort(ks, c.Sort)))
		ts[i] = selectN(Select(h, ref), key)
	}
	v, _ := unflatten(mt.Elem(), ts)
	return v
}

func (ex *Exec) doLookup(st *State, fr *Frame, x *ssa.Lookup) {
	if isStringT(x.X.Type()) {
		s := ex.val(st, fr, x.X).(Scalar).T
		idx := ex.val(st, fr, x.Index).(Scalar).T
		for _, f := range strFacts(s) {
			st.assume(f)
		}
		g := And(Le(Zero, idx), Lt(idx, SLen(s)))
		ex.emit(st, "safety", ex.srcLabel(fr.Fn, x.Pos(), "index"), g, x.Pos(), []string{"C17"})
		st.assume(g)
		c := SAt(s, idx)
		st.assume(And(Le(Zero, c), Le(c, IntLit(255))))
		fr.Regs[x] = Scalar{c}
		return
	}
	mt := under(x.X.Type()).(*types.Map)
	ref := ex.val(st, fr, x.X).(Scalar).T
	key := ex.mapKey(st, ex.val(st, fr, x.Index), mt.Key())
	has := And(Neq(ref, Zero), ex.mapHas(st, x.X.Type(), ref, key))
	v := ex.mapGet(st, x.X.Type(), ref, key)
	z := flatten(zeroValue(mt.Elem()))
	fl := flatten(v)
	for i := range fl {
		fl[i] = Ite(has, fl[i], z[i])
	}
	val, _ := unflatten(mt.Elem(), fl)
	ex.assumeInv(st, mt.Elem(), val)
	if x.CommaOk {
		fr.Regs[x] = TupleV{[]Value{val, Scalar{has}}}
	} else {
		fr.Regs[x] = val
	}
}

func (ex *Exec) doMapUpdate(st *State, fr *Frame, x *ssa.MapUpdate) {
	mt := under(x.Map.Type()).(*types.Map)
	ref := ex.val(st, fr, x.Map).(Scalar).T
	ex.emit(st, "safety", ex.srcLabel(fr.Fn, x.Pos(), "mapwrite"), Neq(ref, Zero), x.Pos(), []string{"C17"})
	st.assume(Neq(ref, Zero))
	ex.checkGuardedMapWrite(st, fr, x.Map, x.Pos())
	ex.checkFrameMap(st, x.Map.Type(), ref, x.Pos())
	key := ex.mapKey(st, ex.val(st, fr, x.Key), mt.Key())
	ex.mapStore(st, x.Map.Type(), ref, key, ex.val(st, fr, x.Value))
}

func (ex *Exec) mapStore(st *State, t types.Type, ref *Term, key []*Term, v Value) {
	mt := under(t).(*types.Map)
	ks := ex.mapSorts(mt)
	cls := mapClass(t)
	h := st.heapGet(cls+"#has", SArr(SInt, nestSort(ks, SBool)))
	st.heapSet(cls+"#has", Store(h, ref, storeN(Select(h, ref), key, True)))
	fl := flatten(v)
	for i, c := range comps(mt.Elem()) {
		hv := st.heapGet(cls+"#val"+c.Suffix, SArr(SInt, nestSort(ks, c.Sort)))
		st.heapSet(cls+"#val"+c.Suffix, Store(hv, ref, storeN(Select(hv, ref), key, fl[i])))
	}
	st.havocClass(cls + "#len")
}

func (ex *Exec) mapDelete(st *State, t types.Type, ref *Term, key []*Term) {
	mt := under(t).(*types.Map)
	ks := ex.mapSorts(mt)
	cls := mapClass(t)
	h := st.heapGet(cls+"#has", SArr(SInt, nestSort(ks, SBool)))
	st.heapSet(cls+"#has", Store(h, ref, storeN(Select(h, ref), key, False)))
	st.havocClass(cls + "#len")
}

func (ex *Exec) doNext(st *State, fr *Frame, x *ssa.Next) {
	tt := x.Type().(*types.Tuple)
	ok := Fresh("iterok", SBool)
	if x.IsString {
		k := Fresh("iterk", SInt)
		r := Fresh("iterr", SInt)
		st.assume(And(Le(Zero, k), Le(Zero, r), Le(r, IntLit(0x10FFFF))))
		fr.Regs[x] = TupleV{[]Value{Scalar{ok}, Scalar{k}, Scalar{r}}}
		return
	}
	rng := x.Iter.(*ssa.Range)
	mt := under(rng.X.Type()).(*types.Map)
	ref := ex.val(st, fr, rng.X).(Scalar).T
	kv := freshValue("iterk", mt.Key())
	ex.assumeInv(st, mt.Key(), kv)
	key := ex.mapKey(st, kv, mt.Key())
	st.assume(Implies(ok, And(Neq(ref, Zero), ex.mapHas(st, rng.X.Type(), ref, key))))
	var vv Value
	if tt.At(2).Type() != nil && !isInvalid(tt.At(2).Type()) {
		vv = ex.mapGet(st, rng.X.Type(), ref, key)
		ex.assumeInv(st, mt.Elem(), vv)
	} else {
		vv = Scalar{Zero}
	}
	var kout Value = kv
	if isInvalid(tt.At(1).Type()) {
		kout = Scalar{Zero}
	}
	fr.Regs[x] = TupleV{[]Value{Scalar{ok}, kout, vv}}
}

func isInvalid(t types.Type) bool {
	b, ok := t.(*types.Basic)
	return ok && b.Kind() == types.Invalid
}

// chanInvOf: the invariant declared for the channel an SSA value denotes, when that value is read from a
// struct field with a 'chan' clause in its type block (x.f, possibly through a captured variable).
func (ex *Exec) chanInvOf(v ssa.Value) (*Clause, types.Type) {
	ld, ok := v.(*ssa.UnOp)
	if !ok || ld.Op != token.MUL {
		return nil, nil
	}
	fa, ok := ld.X.(*ssa.FieldAddr)
	if !ok {
		return nil, nil
	}
	pt, ok := under(fa.X.Type()).(*types.Pointer)
	if !ok {
		return nil, nil
	}
	st, ok := under(pt.Elem()).(*types.Struct)
	if !ok {
		return nil, nil
	}
	ts := ex.Specs.Types[typeName(pt.Elem())]
	if ts == nil || ts.ChanInv == nil {
		return nil, nil
	}
	c, ok := ts.ChanInv[st.Field(fa.Field).Name()]
	if !ok {
		return nil, nil
	}
	ch, _ := under(st.Field(fa.Field).Type()).(*types.Chan)
	if ch == nil {
		return nil, nil
	}
	return &c, ch.Elem()
}

// syncMapInvOf: the content invariant declared for the sync.Map a call's receiver operand denotes - the
// address of a sync.Map-typed field (&x.f) or the value of a *sync.Map-typed field (x.f).
func (ex *Exec) syncMapInvOf(v ssa.Value) *Clause {
	var fa *ssa.FieldAddr
	switch x := v.(type) {
	case *ssa.FieldAddr:
		fa = x
	case *ssa.UnOp:
		if x.Op == token.MUL {
			fa, _ = x.X.(*ssa.FieldAddr)
		}
	}
	if fa == nil {
		return nil
	}
	pt, ok := under(fa.X.Type()).(*types.Pointer)
	if !ok {
		return nil
	}
	st, ok := under(pt.Elem()).(*types.Struct)
	if !ok {
		return nil
	}
	ts := ex.Specs.Types[typeName(pt.Elem())]
	if ts == nil || ts.SyncMapInv == nil {
		return nil
	}
	if c, ok := ts.SyncMapInv[st.Field(fa.Field).Name()]; ok {
		return &c
	}
	return nil
}

// syncMapFact evaluates a sync.Map content invariant for the entry (k, v).
// vsrc, when given, is the SSA operand the stored value comes from: a conversion from a narrower interface
// type keeps that static type (so that typeis(v, I) can use it).
func (ex *Exec) syncMapFact(st *State, fr *Frame, c *Clause, k, v Value, vsrc ...ssa.Value) *Term {
	env := ex.loopEnv(st, fr)
	anyT := types.NewInterfaceType(nil, nil)
	env.vars["k"] = TV{k, anyT}
	env.vars["v"] = TV{v, anyT}
	if len(vsrc) == 1 {
		if ci, ok := vsrc[0].(*ssa.ChangeInterface); ok {
			env.vars["v"] = TV{v, ci.X.Type()}
		}
	}
	return ex.evalBool(env, c.Expr)
}

// chanOpenOf: is the SSA value a read of a struct field whose channel is declared never closed.
func (ex *Exec) chanOpenOf(v ssa.Value) bool {
	ld, ok := v.(*ssa.UnOp)
	if !ok || ld.Op != token.MUL {
		return false
	}
	fa, ok := ld.X.(*ssa.FieldAddr)
	if !ok {
		return false
	}
	pt, ok := under(fa.X.Type()).(*types.Pointer)
	if !ok {
		return false
	}
	st, ok := under(pt.Elem()).(*types.Struct)
	if !ok {
		return false
	}
	ts := ex.Specs.Types[typeName(pt.Elem())]
	return ts != nil && ts.ChanOpen[st.Field(fa.Field).Name()]
}

// chanValueFact evaluates a channel invariant for the value val (bound to v).
// 'self' is the object whose field holds the channel (the clause may speak about its ghost view).
func (ex *Exec) chanValueFact(st *State, fr *Frame, c *Clause, val Value, et types.Type, chv ssa.Value) *Term {
	env := ex.loopEnv(st, fr)
	env.vars["v"] = TV{val, et}
	if fa := fieldLoadOf(chv); fa != nil {
		env.vars["self"] = TV{ex.val(st, fr, fa.X), fa.X.Type()}
	}
	return ex.evalBool(env, c.Expr)
}

// fieldLoadOf: the field address an SSA value is loaded from (x.f), or taken as (&x.f); nil otherwise.
func fieldLoadOf(v ssa.Value) *ssa.FieldAddr {
	switch x := v.(type) {
	case *ssa.FieldAddr:
		return x
	case *ssa.UnOp:
		if x.Op == token.MUL {
			fa, _ := x.X.(*ssa.FieldAddr)
			return fa
		}
	}
	return nil
}

// fieldSpecOf: the type block of the struct a field address points into, and the field's name.
func (ex *Exec) fieldSpecOf(fa *ssa.FieldAddr) (*TypeSpec, string, string) {
	if fa == nil {
		return nil, "", ""
	}
	pt, ok := under(fa.X.Type()).(*types.Pointer)
	if !ok {
		return nil, "", ""
	}
	stt, ok := under(pt.Elem()).(*types.Struct)
	if !ok {
		return nil, "", ""
	}
	tn := typeName(pt.Elem())
	return ex.Specs.Types[tn], tn, stt.Field(fa.Field).Name()
}

// syncViewOf: the ghost view declared for the sync.Map a call's receiver operand denotes.
func (ex *Exec) syncViewOf(v ssa.Value) (*SyncView, string, *ssa.FieldAddr) {
	fa := fieldLoadOf(v)
	ts, tn, f := ex.fieldSpecOf(fa)
	if ts == nil || ts.SyncView == nil {
		return nil, "", nil
	}
	return ts.SyncView[f], tn, fa
}

// freeListOf: is the channel an SSA value denotes the free list of a viewed sync.Map of the same object.
func (ex *Exec) freeListOf(chv ssa.Value) (*SyncView, *ssa.FieldAddr) {
	fa := fieldLoadOf(chv)
	ts, _, f := ex.fieldSpecOf(fa)
	if ts == nil {
		return nil, nil
	}
	for _, sv := range ts.SyncView {
		if sv.Free == f {
			return sv, fa
		}
	}
	return nil, nil
}

// The free-list protocol of a viewed sync.Map, as two linear tokens per owning object and path:
// 'taken' is the key most recently received from the free list and not yet stored, 'released' the key
// most recently deleted from the map and not yet put back. Storing needs the taken token for that key,
// sending on the free list the released one. With this discipline a key is never at once in the map and on
// the free list, which is what lets a receive assume that the key it got is absent from the map.
const viewTakenClass, viewReleasedClass = "viewtok.taken", "viewtok.released"

func (ex *Exec) ownerTerm(st *State, fr *Frame, fa *ssa.FieldAddr) *Term {
	if p, ok := ex.val(st, fr, fa.X).(*PtrV); ok {
		return ptrTerm(p)
	}
	tool("owner of a viewed field is not a pointer")
	return nil
}

// viewReceived: a value was received from chv (under cond); if chv is a free list this takes the token.
func (ex *Exec) viewReceived(st *State, fr *Frame, chv ssa.Value, v Value, cond *Term) {
	sv, fa := ex.freeListOf(chv)
	if sv == nil || ex.pure != nil {
		return
	}
	sc, ok := v.(Scalar)
	if !ok {
		return
	}
	o := ex.ownerTerm(st, fr, fa)
	h := st.heapGet(viewTakenClass, SArr(SInt, SInt))
	st.heapSet(viewTakenClass, Store(h, o, Ite(cond, sc.T, Select(h, o))))
}

// viewSent: a value is sent on chv; if chv is a free list the sender must hold the released token for it.
func (ex *Exec) viewSent(st *State, fr *Frame, chv ssa.Value, v Value, pos token.Pos) {
	sv, fa := ex.freeListOf(chv)
	if sv == nil || ex.pure != nil {
		return
	}
	sc, ok := v.(Scalar)
	if !ok {
		return
	}
	o := ex.ownerTerm(st, fr, fa)
	h := st.heapGet(viewReleasedClass, SArr(SInt, SInt))
	ex.emit(st, "pre", ex.srcLabel(fr.Fn, pos, "freelist-put-back-deleted-key"), And(Le(Zero, sc.T), Eq(Select(h, o), sc.T)), pos, ex.topProps(st))
	st.heapSet(viewReleasedClass, Store(h, o, IntLit(-1)))
}

// syncViewCall models Store / Load / LoadAndDelete / Delete on a viewed sync.Map as updates of the ghost view.
func (ex *Exec) syncViewCall(st *State, fr *Frame, sv *SyncView, tn string, fa *ssa.FieldAddr, m string, args []Value, pos token.Pos) Value {
	kt := types.Universe.Lookup(sv.Key)
	if kt == nil {
		tool("syncview: unknown key type %s", sv.Key)
	}
	keyT := kt.Type()
	o := ex.ownerTerm(st, fr, fa)
	key, ok := args[1].(IfaceV)
	if !ok {
		tool("syncview: key is not an interface value")
	}
	props := ex.topProps(st)
	isK := Eq(key.Tag, IntLit(tagOf(keyT)))
	ex.emit(st, "pre", ex.srcLabel(fr.Fn, pos, "syncview-key-type"), isK, pos, props)
	st.assume(isK)
	k := ex.unbox(st, key, keyT).(Scalar).T
	hasC, tagC, valC := tn+".$"+sv.Has, tn+".$"+sv.Tag, tn+".$"+sv.Val
	hh := st.heapGet(hasC, SArr(SInt, SArr(SInt, SBool)))
	th := st.heapGet(tagC, SArr(SInt, SArr(SInt, SInt)))
	vh := st.heapGet(valC, SArr(SInt, SArr(SInt, SInt)))
	present := Select(Select(hh, o), k)
	entry := IfaceV{Ite(present, Select(Select(th, o), k), Zero), Ite(present, Select(Select(vh, o), k), Zero)}
	switch m {
	case "Store":
		v, ok := args[2].(IfaceV)
		if !ok {
			tool("syncview: stored value is not an interface value")
		}
		if sv.Free != "" {
			tk := st.heapGet(viewTakenClass, SArr(SInt, SInt))
			ex.emit(st, "pre", ex.srcLabel(fr.Fn, pos, "store-under-a-key-taken-from-the-free-list"), And(Le(Zero, k), Eq(Select(tk, o), k)), pos, props)
			st.heapSet(viewTakenClass, Store(tk, o, IntLit(-1)))
		}
		for _, c := range []string{hasC, tagC, valC} {
			ex.checkFrameGhostField(st, c, o, pos)
		}
		st.heapSet(hasC, Store(hh, o, Store(Select(hh, o), k, True)))
		st.heapSet(tagC, Store(th, o, Store(Select(th, o), k, v.Tag)))
		st.heapSet(valC, Store(vh, o, Store(Select(vh, o), k, v.Val)))
		return TupleV{}
	case "Load":
		return TupleV{[]Value{entry, Scalar{present}}}
	case "LoadAndDelete", "Delete":
		ex.checkFrameGhostField(st, hasC, o, pos)
		st.heapSet(hasC, Store(hh, o, Store(Select(hh, o), k, False)))
		if sv.Free != "" {
			rl := st.heapGet(viewReleasedClass, SArr(SInt, SInt))
			st.heapSet(viewReleasedClass, Store(rl, o, Ite(present, k, IntLit(-1))))
		}
		if m == "Delete" {
			return TupleV{}
		}
		return TupleV{[]Value{entry, Scalar{present}}}
	}
	tool("sync.Map.%s on a viewed map is not modelled", m)
	return nil
}

// ---------- go / select ----------

// doGo: the spawned body is not followed, but what its contract requires at entry must hold where the
// goroutine is started (the spawning statement is the only "caller" a goroutine entry point has).
func (ex *Exec) doGo(st *State, fr *Frame, g *ssa.Go) {
	ex.note("go statement in " + specName(fr.Fn) + " (spawned body not followed)")
	if ex.pure != nil {
		return
	}
	c := &g.Call
	var fn *ssa.Function
	var args []Value
	if c.IsInvoke() {
		return
	}
	switch v := ex.val(st, fr, c.Value).(type) {
	case FuncV:
		fn = v.Fn
	case *ClosureV:
		fn = v.Fn
	case BoundV:
		fn = v.Fn
		args = append(args, v.Recv)
	}
	if fn == nil {
		return
	}
	sp := ex.Specs.Funcs[specName(fn)]
	if sp == nil || len(sp.Requires) == 0 {
		return
	}
	for _, a := range c.Args {
		args = append(args, ex.val(st, fr, a))
	}
	env := ex.calleeEnv(st, sp, fn, fn.Signature, args, "")
	env.lets = sp.Lets
	for i, cl := range sp.Requires {
		// ghost recorders local to the spawned function are initialised by it: clauses about them hold trivially
		own := false
		for _, l := range sp.Locals {
			if strings.Contains(cl.Text, "$"+l.Name) {
				own = true
			}
		}
		if own {
			continue
		}
		ex.emit(st, "pre", fmt.Sprintf("%s:%s@go:%s", sp.Name, clauseLabel(cl, i), specName(fr.Fn)), ex.evalBool(env, cl.Expr), g.Pos(), mergeProps(sp.Props, cl.Props))
	}
}

func (ex *Exec) doSelect(st *State, fr *Frame, s *ssa.Select) {
	ex.note("select havocked in " + specName(fr.Fn))
	tt := s.Type().(*types.Tuple)
	tv := TupleV{}
	idx := Fresh("selidx", SInt)
	lo := int64(0)
	if !s.Blocking {
		lo = -1
	}
	st.assume(And(Le(IntLit(lo), idx), Lt(idx, IntLit(int64(len(s.States))))))
	tv.V = append(tv.V, Scalar{idx}, Scalar{Fresh("selok", SBool)})
	for i := 2; i < tt.Len(); i++ {
		v := freshValue("selrecv", tt.At(i).Type())
		ex.assumeInv(st, tt.At(i).Type(), v)
		tv.V = append(tv.V, v)
	}
	fr.Regs[s] = tv
	// a closed channel is always ready to be received from: if the default case is chosen, none of the
	// channels of the receive cases has been closed
	if !s.Blocking {
		hc := st.heapGet(chanClosedClass, SArr(SInt, SBool))
		for _, state := range s.States {
			if state.Dir == types.RecvOnly {
				if cv, ok := ex.val(st, fr, state.Chan).(Scalar); ok {
					st.assume(Implies(Eq(idx, IntLit(-1)), Not(Select(hc, cv.T))))
				}
			}
		}
	}
	// channel invariants: a value received in the chosen case satisfies it; a value offered in a send case must
	{
		k := 2
		for i, state := range s.States {
			if state.Dir == types.RecvOnly {
				if ci, cet := ex.chanInvOf(state.Chan); ci != nil {
					fact := ex.chanValueFact(st, fr, ci, tv.V[k], cet, state.Chan)
					if cv, ok := ex.val(st, fr, state.Chan).(Scalar); ok && !ex.chanOpenOf(state.Chan) {
						// the value was sent, or the channel is closed
						fact = Or(fact, Select(st.heapGet(chanClosedClass, SArr(SInt, SBool)), cv.T))
					}
					st.assume(Implies(Eq(idx, IntLit(int64(i))), fact))
				}
				ex.viewReceived(st, fr, state.Chan, tv.V[k], Eq(idx, IntLit(int64(i))))
				k++
			} else if state.Dir == types.SendOnly {
				if sv, _ := ex.freeListOf(state.Chan); sv != nil {
					tool("send on a free list inside a select is not modelled")
				}
				if ci, cet := ex.chanInvOf(state.Chan); ci != nil {
					ex.emit(st, "pre", ex.srcLabel(fr.Fn, state.Pos, "chan-send"), ex.chanValueFact(st, fr, ci, ex.val(st, fr, state.Send), cet, state.Chan), state.Pos, ex.topProps(st))
				}
			}
		}
	}
	// ghost assignments attached to this select ("after select#k set ..."): selidx is the chosen
	// case, recvN the value received by case N (if it is a receive)
	if sp := ex.Specs.Funcs[specName(fr.Fn)]; sp != nil && len(sp.GhostSets) > 0 {
		if fr.CallCount == nil {
			fr.CallCount = map[string]int{}
		}
		fr.CallCount["select"]++
		for _, gs := range sp.GhostSets {
			if gs.Callee != "select" || !(gs.Ord == 0 || gs.Ord == fr.CallCount["select"]) {
				continue
			}
			env := ex.loopEnv(st, fr)
			env.vars["selidx"] = TV{Scalar{idx}, types.Typ[types.Int]}
			env.vars["selcases"] = TV{Scalar{IntLit(int64(len(s.States)))}, types.Typ[types.Int]}
			k := 2
			for i, state := range s.States {
				if state.Dir == types.RecvOnly {
					et := under(state.Chan.Type()).(*types.Chan).Elem()
					env.vars[fmt.Sprintf("recv%d", i)] = TV{tv.V[k], et}
					k++
				}
			}
			var vals []TV
			ok := func() (ok bool) {
				// a hook written for one select statement refers to receive cases another one may not have
				defer func() {
					if r := recover(); r != nil {
						if te, isTool := r.(toolErr); isTool && strings.Contains(string(te), "unknown identifier recv") {
							ok = false
							return
						}
						panic(r)
					}
				}()
				for _, e := range gs.Exprs {
					vals = append(vals, env.eval(e))
				}
				return true
			}()
			if !ok {
				continue
			}
			for i, n := range gs.Names {
				_ = n
			env.assignGhost(gs, i, vals[i])
			}
		}
	}
}
