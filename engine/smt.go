package main

import (
	"bytes"
	"context"
	"fmt"
	"math/big"
	"os"
	"os/exec"
	"regexp"
	"sort"
	"strings"
	"time"
)

// Query: assumptions |= goal, decided by checking assumptions ∧ ¬goal for unsat.
type Query struct {
	Assumes []*Term
	Goal    *Term
	Values  []*Term // terms whose model value is requested when the answer is sat
	Cheap   bool    // obligation kinds for which a satisfiable quantifier-free relaxation ends the attempt
}

const maxQueryNodes = 400000

type SolveResult struct {
	Status  string // "unsat" (proved), "sat" (refuted, model), "unknown", "toolimit"
	Solver  string
	Ms      int64
	Output  string
	Model   map[string]string // printed term -> value text
	Tried   []string
	SMTText string
}

func isClosedMemo(t *Term, memo map[*Term]bool, bound map[string]bool) bool {
	if v, ok := memo[t]; ok {
		return v
	}
	r := true
	if t.Op == "var" && bound[t.Name] {
		r = false
	}
	for _, a := range t.Args {
		if !isClosedMemo(a, memo, bound) {
			r = false
		}
	}
	memo[t] = r
	return r
}

// smtText prints the query with shared closed subterms hoisted into define-funs.
func (q *Query) smtText(withValues bool, logicHint string) (string, bool) {
	all := append(append([]*Term{}, q.Assumes...), q.Goal)
	if withValues {
		all = append(all, q.Values...)
	}
	if termSize(all) > maxQueryNodes {
		return "", false
	}
	vars, ufs, _ := collectDecls(all)
	// reference counts
	refs := map[*Term]int{}
	bound := map[string]bool{}
	var order []*Term
	var count func(*Term)
	count = func(t *Term) {
		refs[t]++
		if refs[t] > 1 {
			return
		}
		if t.Op == "forall" || t.Op == "exists" {
			for _, v := range t.Args[:len(t.Args)-1] {
				bound[v.Name] = true
			}
		}
		for _, a := range t.Args {
			count(a)
		}
		order = append(order, t) // post-order
	}
	for _, t := range all {
		count(t)
	}
	closed := map[*Term]bool{}
	names := map[*Term]string{}
	var sb strings.Builder
	if logicHint != "" {
		sb.WriteString("(set-logic " + logicHint + ")\n")
	}
	sb.WriteString("(declare-sort Str 0)\n")
	for _, v := range vars {
		sb.WriteString(fmt.Sprintf("(declare-fun %s () %s)\n", smtName(v), TP.Vars[v]))
	}
	for _, u := range ufs {
		sig := TP.UFs[u]
		var as []string
		for _, s := range sig[:len(sig)-1] {
			as = append(as, s.str)
		}
		sb.WriteString(fmt.Sprintf("(declare-fun %s (%s) %s)\n", smtName(u), strings.Join(as, " "), sig[len(sig)-1]))
	}
	n := 0
	for _, t := range order {
		if refs[t] > 1 && len(t.Args) > 0 && t.Op != "forall" && t.Op != "exists" && isClosedMemo(t, closed, bound) {
			var b strings.Builder
			t.write(&b, names)
			if b.Len() < 24 {
				continue
			}
			n++
			nm := fmt.Sprintf("$d%d", n)
			sb.WriteString(fmt.Sprintf("(define-fun %s () %s %s)\n", nm, t.Sort, b.String()))
			names[t] = nm
		}
	}
	for _, a := range q.Assumes {
		sb.WriteString("(assert ")
		a.write(&sb, names)
		sb.WriteString(")\n")
	}
	sb.WriteString("(assert (not ")
	q.Goal.write(&sb, names)
	sb.WriteString("))\n")
	sb.WriteString("(check-sat)\n")
	if withValues && len(q.Values) > 0 {
		for _, v := range q.Values {
			sb.WriteString("(get-value (")
			v.write(&sb, names)
			sb.WriteString("))\n")
		}
	}
	return sb.String(), true
}

type solverSpec struct {
	name string
	argv func(file string, timeoutMs int) []string
}

var solvers = []solverSpec{
	{"z3-new", func(f string, ms int) []string { return []string{"z3-new", fmt.Sprintf("-t:%d", ms), f} }},
	{"cvc5", func(f string, ms int) []string {
		return []string{"cvc5", "--produce-models", fmt.Sprintf("--tlimit-per=%d", ms), f}
	}},
	{"z3", func(f string, ms int) []string { return []string{"z3", fmt.Sprintf("-t:%d", ms), f} }},
}

func runSolver(sp solverSpec, text string, dir string, tag string, timeoutMs int) (status, out string, ms int64) {
	f := fmt.Sprintf("%s/%s.%s.smt2", dir, tag, sp.name)
	if sp.name == "cvc5" {
		text = "(set-option :produce-models true)\n(set-logic ALL)\n" + text
	}
	if err := os.WriteFile(f, []byte(text), 0644); err != nil {
		return "unknown", err.Error(), 0
	}
	defer os.Remove(f)
	ctx, cancel := context.WithTimeout(context.Background(), time.Duration(timeoutMs+2000)*time.Millisecond)
	defer cancel()
	argv := sp.argv(f, timeoutMs)
	cmd := exec.CommandContext(ctx, argv[0], argv[1:]...)
	var buf bytes.Buffer
	cmd.Stdout = &buf
	cmd.Stderr = &buf
	t0 := time.Now()
	_ = cmd.Run()
	ms = time.Since(t0).Milliseconds()
	out = buf.String()
	first := strings.TrimSpace(strings.SplitN(out, "\n", 2)[0])
	switch first {
	case "unsat", "sat":
		status = first
	default:
		status = "unknown"
	}
	return
}

var solveSeq int64

// Solve runs the portfolio. unsat from any solver proves; sat needs a model from the same solver.
func hasQuant(t *Term, memo map[*Term]bool) bool {
	if v, ok := memo[t]; ok {
		return v
	}
	r := t.Op == "forall" || t.Op == "exists"
	for _, a := range t.Args {
		if r {
			break
		}
		if hasQuant(a, memo) {
			r = true
		}
	}
	memo[t] = r
	return r
}

func (q *Query) Solve(dir, tag string, timeoutMs int) *SolveResult {
	// stage 1: drop quantified assumptions (sound for unsat; a sat answer is inconclusive)
	memo := map[*Term]bool{}
	nq := 0
	var qf []*Term
	for _, a := range q.Assumes {
		if hasQuant(a, memo) {
			nq++
		} else {
			qf = append(qf, a)
		}
	}
	stage1Sat := false
	if nq > 0 && !hasQuant(q.Goal, memo) {
		q1 := &Query{Assumes: qf, Goal: q.Goal}
		if text, ok := q1.smtText(false, ""); ok {
			to := timeoutMs / 4
			if to < 1000 {
				to = 1000
			}
			st, out, ms := runSolver(solvers[0], text, dir, tag+".qf", to)
			if st == "unsat" {
				return &SolveResult{Status: "unsat", Solver: solvers[0].name + "(qf)", Output: out, Ms: ms, Tried: []string{solvers[0].name + "(qf):unsat"}, SMTText: text}
			}
			stage1Sat = st == "sat"
		}
	}
	res := &SolveResult{}
	text, ok := q.smtText(false, "")
	if !ok {
		res.Status = "toolimit"
		res.Output = "query exceeds node cap"
		return res
	}
	res.SMTText = text
	if q.Cheap && stage1Sat {
		// cheap obligation kinds (nil, lock, immutable): one short attempt on the full query
		st, out, ms := runSolver(solvers[0], text, dir, tag, 1500)
		res.Tried = append(res.Tried, solvers[0].name+":"+st)
		if st == "unsat" {
			res.Status, res.Solver, res.Output, res.Ms = st, solvers[0].name+"(short)", out, ms
			return res
		}
		res.Status = "unknown"
		res.Output = "quantifier-free relaxation is satisfiable; one short attempt on the full query did not decide it"
		return res
	}
	t0 := time.Now()
	finish := func(sp solverSpec, st, out string) *SolveResult {
		res.Status, res.Solver, res.Output = st, sp.name, out
		if st == "sat" {
			vt, _ := q.smtText(true, "")
			_, vout, _ := runSolver(sp, vt, dir, tag+".m", timeoutMs)
			res.Output = vout
			res.Model = parseValues(vout)
		}
		res.Ms = time.Since(t0).Milliseconds()
		return res
	}
	st, out, _ := runSolver(solvers[0], text, dir, tag, timeoutMs)
	res.Tried = append(res.Tried, solvers[0].name+":"+st)
	if st == "unsat" || st == "sat" {
		return finish(solvers[0], st, out)
	}
	res.Output += solvers[0].name + ": " + firstLines(out, 3) + "\n"
	type ans struct {
		sp      solverSpec
		st, out string
	}
	ch := make(chan ans, len(solvers))
	for _, sp := range solvers[1:] {
		go func(sp solverSpec) {
			st, out, _ := runSolver(sp, text, dir, tag, timeoutMs)
			ch <- ans{sp, st, out}
		}(sp)
	}
	var got *ans
	for range solvers[1:] {
		a := <-ch
		res.Tried = append(res.Tried, a.sp.name+":"+a.st)
		if (a.st == "unsat" || a.st == "sat") && got == nil {
			aa := a
			got = &aa
		} else {
			res.Output += a.sp.name + ": " + firstLines(a.out, 3) + "\n"
		}
	}
	if got != nil {
		return finish(got.sp, got.st, got.out)
	}
	res.Status = "unknown"
	res.Ms = time.Since(t0).Milliseconds()
	return res
}

func firstLines(s string, n int) string {
	ls := strings.Split(strings.TrimSpace(s), "\n")
	if len(ls) > n {
		ls = ls[:n]
	}
	return strings.Join(ls, " / ")
}

// parseValues reads "((term value))" lines produced by get-value.
func parseValues(out string) map[string]string {
	m := map[string]string{}
	lines := strings.Split(out, "\n")
	// join multi-line answers: an answer starts with "((" at depth 0
	var cur strings.Builder
	depth := 0
	flush := func() {
		s := strings.TrimSpace(cur.String())
		cur.Reset()
		if !strings.HasPrefix(s, "((") {
			return
		}
		s = s[2 : len(s)-2]
		// split term and value: term is one s-expr
		i := sexprEnd(s)
		if i <= 0 || i >= len(s) {
			return
		}
		m[strings.TrimSpace(s[:i])] = strings.TrimSpace(s[i:])
	}
	for _, l := range lines[1:] {
		for _, c := range l {
			if c == '(' {
				depth++
			} else if c == ')' {
				depth--
			}
		}
		cur.WriteString(l)
		cur.WriteString(" ")
		if depth == 0 {
			flush()
		}
	}
	return m
}

func sexprEnd(s string) int {
	if len(s) == 0 {
		return 0
	}
	if s[0] == '|' {
		j := strings.IndexByte(s[1:], '|')
		if j < 0 {
			return len(s)
		}
		return j + 2
	}
	if s[0] != '(' {
		for i, c := range s {
			if c == ' ' {
				return i
			}
		}
		return len(s)
	}
	d := 0
	inBar := false
	for i, c := range s {
		if c == '|' {
			inBar = !inBar
		}
		if inBar {
			continue
		}
		if c == '(' {
			d++
		} else if c == ')' {
			d--
			if d == 0 {
				return i + 1
			}
		}
	}
	return len(s)
}

var negRe = regexp.MustCompile(`^\(-\s*(\d+)\)$`)

// modelInt parses an integer model value ("5", "(- 5)").
func modelInt(s string) (*big.Int, bool) {
	s = strings.TrimSpace(s)
	if m := negRe.FindStringSubmatch(s); m != nil {
		v, ok := new(big.Int).SetString(m[1], 10)
		if ok {
			v.Neg(v)
		}
		return v, ok
	}
	v, ok := new(big.Int).SetString(s, 10)
	return v, ok
}

func sortedKeys(m map[string]string) []string {
	ks := make([]string, 0, len(m))
	for k := range m {
		ks = append(ks, k)
	}
	sort.Strings(ks)
	return ks
}
