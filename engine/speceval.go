package main

import (
	"sort"
	"fmt"
	"go/ast"
	"go/parser"
	"go/constant"
	"go/token"
	"go/types"
	"strconv"
	"strings"

	"golang.org/x/tools/go/ssa"
)

type TV struct {
	V Value
	T types.Type // nil for untyped integer constants
}

type SpecEnv struct {
	lets        map[string]ast.Expr
	addrs       map[string]*PtrV // heap-allocated named locals: their addresses (for &x in specifications)
	inPost      bool // evaluating a postcondition of the function being verified
	noUnfold    bool // inside the body of a specfn being unfolded: inner applications stay folded
	assumeLocks bool // evaluating the precondition of the function under verification: holds(x) defines the entry lockset
	ex   *Exec
	st   *State
	old  *FullSnapshot
	pkg  *types.Package
	vars map[string]TV
	fn   *ssa.Function
}

type FullSnapshot struct {
	Heap     map[string]*Term
	Frontier *Term
	Locks    map[string]int
	HavRepo  bool
	HavExcept []string
	HavExt   bool
	HavGhost bool
}

func (st *State) snapshotFull() *FullSnapshot {
	s := &FullSnapshot{Heap: map[string]*Term{}, Frontier: st.Frontier, Locks: copyLocks(st.Locks), HavRepo: st.HavRepo, HavExt: st.HavExt, HavGhost: st.HavGhost, HavExcept: append([]string{}, st.HavExcept...)}
	for k, v := range st.Heap {
		s.Heap[k] = v
	}
	return s
}

// oldView returns a state that reads the snapshot heap (writes are discarded).
func (env *SpecEnv) oldView() *State {
	if env.old == nil {
		return env.st
	}
	v := &State{PC: env.st.PC, Frontier: env.old.Frontier, Heap: map[string]*Term{}, Locals: env.st.Locals, Locks: env.old.Locks,
		Fresh: env.st.Fresh, Written: map[string]bool{}, HavRepo: env.old.HavRepo, HavExt: env.old.HavExt, HavGhost: env.old.HavGhost, HavExcept: env.old.HavExcept, Frames: env.st.Frames}
	for k, t := range env.old.Heap {
		v.Heap[k] = t
	}
	return v
}

func (env *SpecEnv) with(name string, tv TV) *SpecEnv {
	n := *env
	n.vars = map[string]TV{}
	for k, v := range env.vars {
		n.vars[k] = v
	}
	n.vars[name] = tv
	return &n
}

func (env *SpecEnv) bindResults(sig *types.Signature, res Value) {
	rs := sig.Results()
	switch rs.Len() {
	case 0:
	case 1:
		env.vars["result"] = TV{res, rs.At(0).Type()}
		if n := rs.At(0).Name(); n != "" && n != "_" {
			env.vars[n] = TV{res, rs.At(0).Type()}
		}
	default:
		tv := res.(TupleV)
		for i := 0; i < rs.Len(); i++ {
			env.vars[fmt.Sprintf("result%d", i)] = TV{tv.V[i], rs.At(i).Type()}
			if n := rs.At(i).Name(); n != "" && n != "_" {
				env.vars[n] = TV{tv.V[i], rs.At(i).Type()}
			}
		}
	}
}

func pkgOfFn(fn *ssa.Function) *types.Package {
	for f := fn; f != nil; f = f.Parent() {
		if f.Pkg != nil {
			return f.Pkg.Pkg
		}
		if f.Object() != nil && f.Object().Pkg() != nil {
			return f.Object().Pkg()
		}
	}
	return nil
}

func (ex *Exec) specPkg(sp *FuncSpec, fn *ssa.Function) *types.Package {
	if fn != nil {
		if p := pkgOfFn(fn); p != nil && ex.inRepo(fn) {
			return p
		}
	}
	// contracts for extern functions are resolved in the scope of the repo package named first in
	// the spec file path, or fall back to proxy
	short := strings.SplitN(sp.Name, ".", 2)[0]
	for path, pk := range ex.P.ByPath {
		if pk.Types.Name() == short {
			_ = path
			return pk.Types
		}
	}
	if fn != nil {
		return pkgOfFn(fn)
	}
	return ex.P.ByPath[ex.P.ModPath+"/proxy"].Types
}

func (ex *Exec) calleeEnv(st *State, sp *FuncSpec, fn *ssa.Function, sig *types.Signature, args []Value, recvName string) *SpecEnv {
	env := &SpecEnv{ex: ex, st: st, vars: map[string]TV{}, fn: fn}
	env.pkg = ex.specPkg(sp, fn)
	i := 0
	if fn != nil {
		for j, p := range fn.Params {
			if j < len(args) {
				env.vars[p.Name()] = TV{args[j], p.Type()}
			}
		}
		if sig.Recv() != nil && len(fn.Params) > 0 && len(args) > 0 {
			env.vars["recv"] = TV{args[0], fn.Params[0].Type()}
		}
		// the contract may still call a renamed parameter by the name the baseline knows (locals.go)
		for old, p := range renamedParams(fn) {
			for j, q := range fn.Params {
				if q == p && j < len(args) {
					env.vars[old] = TV{args[j], p.Type()}
				}
			}
		}
		return env
	}
	if sig.Recv() != nil || recvName != "" {
		var rt types.Type
		if sig.Recv() != nil {
			rt = sig.Recv().Type()
		}
		n := recvName
		if sig.Recv() != nil && sig.Recv().Name() != "" {
			n = sig.Recv().Name()
		}
		if n == "" {
			n = "recv"
		}
		if len(args) > 0 {
			env.vars[n] = TV{args[0], rt}
			env.vars["recv"] = TV{args[0], rt}
		}
		i = 1
	}
	for j := 0; j < sig.Params().Len(); j++ {
		if i+j < len(args) {
			env.vars[sig.Params().At(j).Name()] = TV{args[i+j], sig.Params().At(j).Type()}
		}
	}
	return env
}

// funcEnv: pre/post environment of the function being verified (parameters at entry).
func (ex *Exec) funcEnv(st *State, fr *Frame) *SpecEnv {
	env := &SpecEnv{ex: ex, st: st, vars: map[string]TV{}, fn: fr.Fn, pkg: pkgOfFn(fr.Fn)}
	for _, p := range fr.Fn.Params {
		if v, ok := fr.Params[p.Name()]; ok {
			env.vars[p.Name()] = TV{v, p.Type()}
		}
	}
	for old, p := range renamedParams(fr.Fn) {
		if v, ok := fr.Params[p.Name()]; ok {
			env.vars[old] = TV{v, p.Type()}
		}
	}
	for n, tv := range fr.Extra {
		env.vars[n] = tv
	}
	for i, fv := range fr.Fn.FreeVars {
		_ = i
		if v, ok := fr.Regs[fv]; ok {
			// captured variables are pointers to cells: expose the pointee by name
			if p, ok := v.(*PtrV); ok {
				env.vars[fv.Name()] = TV{ex.load(st, p), p.Elem}
			}
		}
	}
	return env
}

// loopEnv: current values of named locals shadow the entry parameters.
func (ex *Exec) loopEnv(st *State, fr *Frame) *SpecEnv {
	env := ex.funcEnv(st, fr)
	if sp := ex.Specs.Funcs[specName(fr.Fn)]; sp != nil {
		env.lets = sp.Lets
	}
	env.old = nil
	if fr.EntryFull != nil {
		env.old = fr.EntryFull
	}
	for _, p := range fr.Fn.Params {
		if v, ok := fr.Params[p.Name()]; ok {
			env.vars["old_"+p.Name()] = TV{v, p.Type()}
		}
	}
	for old, p := range renamedParams(fr.Fn) {
		if v, ok := fr.Params[p.Name()]; ok {
			env.vars["old_"+old] = TV{v, p.Type()}
		}
	}
	// several locals may share a name (two range loops: two "rangeindex" cells): take the one
	// declared last before the current position, and for rangeindex the innermost enclosing loop's
	var names []*ssa.Alloc
	for a := range fr.Cells {
		names = append(names, a)
	}
	sort.Slice(names, func(i, j int) bool { return names[i].Pos() < names[j].Pos() })
	for _, a := range names {
		c := fr.Cells[a]
		if a.Comment == "" || strings.Contains(a.Comment, "$") {
			continue
		}
		if v, ok := st.Locals[c]; ok {
			env.vars[a.Comment] = TV{v, c.Typ}
		}
	}
	if al := ex.enclosingRangeIndex(fr); al != nil {
		if c := fr.Cells[al]; c != nil {
			if v, ok := st.Locals[c]; ok {
				env.vars["rangeindex"] = TV{v, c.Typ}
			}
		}
	}
	// a local the baseline knows under a name that is gone (see locals.go); of several declarations the one
	// declared last that has a value wins, as for names that still exist
	for old, as := range renamedLocals(fr.Fn) {
		if _, bound := env.vars[old]; bound {
			continue
		}
		for _, a := range as {
			if c := fr.Cells[a]; c != nil {
				if v, ok := st.Locals[c]; ok {
					env.vars[old] = TV{v, c.Typ}
				}
			} else if val, ok := fr.Regs[a]; ok && a.Heap {
				if p, ok := val.(*PtrV); ok {
					env.vars[old] = TV{ex.load(st, p), p.Elem}
					if env.addrs == nil {
						env.addrs = map[string]*PtrV{}
					}
					env.addrs[old] = p
				}
			}
		}
	}
	// heap-allocated (escaping) named locals
	for v, val := range fr.Regs {
		if a, ok := v.(*ssa.Alloc); ok && a.Heap && a.Comment != "" {
			if p, ok := val.(*PtrV); ok && isIdent(a.Comment) {
				if _, dup := env.vars[a.Comment]; !dup || true {
					env.vars[a.Comment] = TV{ex.load(st, p), p.Elem}
					if env.addrs == nil {
						env.addrs = map[string]*PtrV{}
					}
					env.addrs[a.Comment] = p
				}
			}
		}
	}
	return env
}

func isIdent(s string) bool {
	if s == "" {
		return false
	}
	for i, c := range s {
		if !(c == '_' || c >= 'a' && c <= 'z' || c >= 'A' && c <= 'Z' || (i > 0 && c >= '0' && c <= '9')) {
			return false
		}
	}
	return true
}

func (env *SpecEnv) evalBoolT(e ast.Expr) *Term {
	tv := env.eval(e)
	s, ok := tv.V.(Scalar)
	if !ok || s.T.Sort != SBool {
		tool("spec expression is not boolean: %s", exprString(e))
	}
	return s.T
}

func (ex *Exec) evalBool(env *SpecEnv, e ast.Expr) *Term { return env.evalBoolT(e) }

func (ex *Exec) evalInt(env *SpecEnv, e ast.Expr) *Term {
	tv := env.eval(e)
	s, ok := tv.V.(Scalar)
	if !ok || s.T.Sort != SInt {
		tool("spec expression is not an integer: %s", exprString(e))
	}
	return s.T
}

func exprString(e ast.Expr) string { return types.ExprString(e) }

func (env *SpecEnv) lookupPkg(name string) *types.Package {
	if env.pkg == nil {
		return nil
	}
	for _, imp := range env.pkg.Imports() {
		if imp.Name() == name {
			return imp
		}
	}
	for _, pk := range env.ex.P.ByPath {
		if pk.Types.Name() == name {
			return pk.Types
		}
		for _, imp := range pk.Types.Imports() {
			if imp.Name() == name {
				return imp
			}
		}
	}
	// any package of the program (transitive dependencies)
	var found *types.Package
	for _, sp := range env.ex.P.SSA.AllPackages() {
		if sp.Pkg.Name() == name && (found == nil || len(sp.Pkg.Path()) < len(found.Path())) {
			found = sp.Pkg
		}
	}
	return found
}

func (env *SpecEnv) objValue(obj types.Object) TV {
	ex := env.ex
	switch o := obj.(type) {
	case *types.Const:
		return constTV(o.Val(), o.Type())
	case *types.Var:
		if sp := ex.P.SSA.Package(o.Pkg()); sp != nil {
			if g, ok := sp.Members[o.Name()].(*ssa.Global); ok {
				p := ex.globalPtr(g)
				return TV{ex.load(env.st, p), o.Type()}
			}
		}
	case *types.Func:
		if fn := ex.P.SSA.FuncValue(o); fn != nil {
			return TV{FuncV{fn}, o.Type()}
		}
	case *types.Nil:
		return TV{nil, nil}
	}
	tool("spec: cannot evaluate object %s", obj)
	return TV{}
}

func constTV(v constant.Value, t types.Type) TV {
	switch v.Kind() {
	case constant.Bool:
		return TV{Scalar{BoolLit(constant.BoolVal(v))}, t}
	case constant.String:
		return TV{Scalar{StrLit(constant.StringVal(v))}, t}
	case constant.Int:
		if i, ok := constant.Int64Val(v); ok {
			return TV{Scalar{IntLit(i)}, t}
		}
		b, _ := newBig(v.ExactString())
		return TV{Scalar{BigLit(b)}, t}
	}
	tool("spec: unsupported constant kind")
	return TV{}
}

func (env *SpecEnv) resolveType(e ast.Expr) types.Type {
	switch x := e.(type) {
	case *ast.Ident:
		if o := types.Universe.Lookup(x.Name); o != nil {
			if tn, ok := o.(*types.TypeName); ok {
				return tn.Type()
			}
		}
		if env.pkg != nil {
			if o := env.pkg.Scope().Lookup(x.Name); o != nil {
				if tn, ok := o.(*types.TypeName); ok {
					return tn.Type()
				}
			}
		}
	case *ast.SelectorExpr:
		if id, ok := x.X.(*ast.Ident); ok {
			if pk := env.lookupPkg(id.Name); pk != nil {
				if o := pk.Scope().Lookup(x.Sel.Name); o != nil {
					if tn, ok := o.(*types.TypeName); ok {
						return tn.Type()
					}
				}
			}
		}
	case *ast.StarExpr:
		if t := env.resolveType(x.X); t != nil {
			return types.NewPointer(t)
		}
	case *ast.ArrayType:
		if x.Len == nil {
			if t := env.resolveType(x.Elt); t != nil {
				return types.NewSlice(t)
			}
		} else if bl, ok := x.Len.(*ast.BasicLit); ok {
			n, err := strconv.ParseInt(bl.Value, 0, 64)
			if t := env.resolveType(x.Elt); t != nil && err == nil {
				return types.NewArray(t, n)
			}
		}
	case *ast.ParenExpr:
		return env.resolveType(x.X)
	case *ast.InterfaceType:
		return types.NewInterfaceType(nil, nil)
	}
	return nil
}

func (env *SpecEnv) eval(e ast.Expr) TV {
	ex := env.ex
	switch x := e.(type) {
	case *ast.ParenExpr:
		return env.eval(x.X)
	case *ast.BasicLit:
		switch x.Kind {
		case token.INT:
			b, ok := newBig(x.Value)
			if !ok {
				tool("bad int literal %s", x.Value)
			}
			return TV{Scalar{BigLit(b)}, nil}
		case token.STRING:
			s, err := strconv.Unquote(x.Value)
			if err != nil {
				tool("bad string literal")
			}
			return TV{Scalar{StrLit(s)}, types.Typ[types.String]}
		case token.CHAR:
			s, _, _, err := strconv.UnquoteChar(x.Value[1:len(x.Value)-1], '\'')
			if err != nil {
				tool("bad char literal")
			}
			return TV{Scalar{IntLit(int64(s))}, nil}
		}
	case *ast.Ident:
		switch x.Name {
		case "true":
			return TV{Scalar{True}, types.Typ[types.Bool]}
		case "false":
			return TV{Scalar{False}, types.Typ[types.Bool]}
		case "nil":
			return TV{nil, nil}
		}
		if tv, ok := env.vars[x.Name]; ok {
			return tv
		}
		if strings.HasPrefix(x.Name, "ghost_") {
			return env.ghostGlobal(strings.TrimPrefix(x.Name, "ghost_"))
		}
		if le, ok := env.lets[x.Name]; ok {
			return env.eval(le)
		}
		if env.pkg != nil {
			if o := env.pkg.Scope().Lookup(x.Name); o != nil {
				return env.objValue(o)
			}
		}
		tool("spec: unknown identifier %s", x.Name)
	case *ast.SelectorExpr:
		if id, ok := x.X.(*ast.Ident); ok {
			if _, isVar := env.vars[id.Name]; !isVar {
				if pk := env.lookupPkg(id.Name); pk != nil && (env.pkg == nil || env.pkg.Scope().Lookup(id.Name) == nil) {
					o := pk.Scope().Lookup(x.Sel.Name)
					if o == nil {
						tool("spec: %s.%s not found", id.Name, x.Sel.Name)
					}
					return env.objValue(o)
				}
			}
		}
		base := env.eval(x.X)
		return env.selectField(base, x.Sel.Name)
	case *ast.StarExpr:
		base := env.eval(x.X)
		p, ok := base.V.(*PtrV)
		if !ok {
			tool("spec: deref of non-pointer")
		}
		return TV{ex.load(env.st, p), p.Elem}
	case *ast.UnaryExpr:
		if x.Op == token.AND {
			// &local: address of a heap-allocated named local of the function
			if id, ok := x.X.(*ast.Ident); ok {
				if p, ok := env.addrs[id.Name]; ok {
					return TV{p, types.NewPointer(p.Elem)}
				}
			}
			// &x.f: address of a field of the struct x points to
			if sel, ok := x.X.(*ast.SelectorExpr); ok {
				base := env.eval(sel.X)
				if bp, ok := base.V.(*PtrV); ok {
					if stt, ok := under(bp.Elem).(*types.Struct); ok {
						for i := 0; i < stt.NumFields(); i++ {
							if stt.Field(i).Name() == sel.Sel.Name {
								fp := ex.fieldAddr(env.st, bp, i)
								return TV{fp, types.NewPointer(fp.Elem)}
							}
						}
					}
				}
			}
			tool("spec: unsupported expression %s", exprString(e))
		}
		v := env.eval(x.X)
		switch x.Op {
		case token.NOT:
			return TV{Scalar{Not(v.V.(Scalar).T)}, v.T}
		case token.SUB:
			return TV{Scalar{Neg(v.V.(Scalar).T)}, v.T}
		case token.ADD:
			return v
		}
	case *ast.BinaryExpr:
		return env.evalBinary(x)
	case *ast.IndexExpr:
		base := env.eval(x.X)
		idx := env.eval(x.Index).V.(Scalar).T
		switch b := base.V.(type) {
		case SliceV:
			et := under(base.T).(*types.Slice).Elem()
			if isStructT(et) {
				return TV{ex.loadObj(env.st, elemRef(et, b.Arr, Add(b.Off, idx)), classOf(et), et), et}
			}
			return TV{ex.load(env.st, &PtrV{Root: RElem, Arr: b.Arr, Idx: Add(b.Off, idx), Elem: et}), et}
		case ArrayV:
			et := under(base.T).(*types.Array).Elem()
			var cs []*Term
			for _, c := range b.Comps {
				cs = append(cs, Select(c, idx))
			}
			v, _ := unflatten(et, cs)
			if !mentionsBound(idx) {
				ex.assumeInv(env.st, et, v)
			}
			return TV{v, et}
		case Scalar:
			if base.T != nil && isStringT(base.T) {
				return TV{Scalar{SAt(b.T, idx)}, types.Typ[types.Uint8]}
			}
			if b.T.Sort.Kind == KArr {
				// a raw row (elemtags)
				return TV{Scalar{Select(b.T, idx)}, types.Typ[types.Int]}
			}
		}
		tool("spec: index of %T", base.V)
	case *ast.SliceExpr:
		base := env.eval(x.X)
		var lo, hi *Term
		if x.Low != nil {
			lo = env.eval(x.Low).V.(Scalar).T
		} else {
			lo = Zero
		}
		switch b := base.V.(type) {
		case SliceV:
			if x.High != nil {
				hi = env.eval(x.High).V.(Scalar).T
			} else {
				hi = b.Len
			}
			return TV{SliceV{b.Arr, Add(b.Off, lo), Sub(hi, lo), Sub(b.Cap, lo)}, base.T}
		case Scalar:
			if b.T.Sort == SStr {
				if x.High != nil {
					hi = env.eval(x.High).V.(Scalar).T
				} else {
					hi = SLen(b.T)
				}
				if lo.IsInt() && lo.Int.Sign() == 0 && hi == SLen(b.T) {
					return base
				}
				return TV{Scalar{UF("substr", SStr, b.T, lo, hi)}, base.T}
			}
		}
		tool("spec: slice expression on %T", base.V)
	case *ast.CallExpr:
		return env.evalCall(x)
	case *ast.CompositeLit:
		// T{}: the zero value of T
		if len(x.Elts) == 0 && x.Type != nil {
			if t := env.resolveType(x.Type); t != nil {
				return TV{zeroValue(t), t}
			}
		}
	}
	tool("spec: unsupported expression %s", exprString(e))
	return TV{}
}

func newBig(s string) (*bigInt, bool) {
	b, ok := new(bigInt).SetString(s, 0)
	return b, ok
}

func (env *SpecEnv) selectField(base TV, name string) TV {
	ex := env.ex
	t := base.T
	if t == nil {
		tool("spec: selector on untyped value")
	}
	// ghost fields
	if strings.HasPrefix(name, "ghost_") {
		return env.ghostField(base, strings.TrimPrefix(name, "ghost_"))
	}
	if pt, ok := under(t).(*types.Pointer); ok {
		st, ok := under(pt.Elem()).(*types.Struct)
		if !ok {
			tool("spec: field %s of pointer to non-struct", name)
		}
		p, ok := base.V.(*PtrV)
		if !ok {
			tool("spec: field of non-pointer value")
		}
		for i := 0; i < st.NumFields(); i++ {
			if st.Field(i).Name() == name {
				fp := ex.fieldAddrNoAssume(p, i)
				return TV{ex.load(env.st, fp), st.Field(i).Type()}
			}
		}
		// promoted through embedded fields
		for i := 0; i < st.NumFields(); i++ {
			if st.Field(i).Embedded() {
				fp := ex.fieldAddrNoAssume(p, i)
				ft := st.Field(i).Type()
				var inner TV
				if isStructT(ft) {
					inner = TV{fp, types.NewPointer(ft)}
				} else {
					inner = TV{ex.load(env.st, fp), ft}
				}
				if hasField(ft, name) {
					return env.selectField(inner, name)
				}
			}
		}
		tool("spec: no field %s in %s", name, typeName(pt.Elem()))
	}
	if st, ok := under(t).(*types.Struct); ok {
		sv := base.V.(StructV)
		for i := 0; i < st.NumFields(); i++ {
			if st.Field(i).Name() == name {
				return TV{sv.F[i], st.Field(i).Type()}
			}
		}
		for i := 0; i < st.NumFields(); i++ {
			if st.Field(i).Embedded() && hasField(st.Field(i).Type(), name) {
				return env.selectField(TV{sv.F[i], st.Field(i).Type()}, name)
			}
		}
	}
	tool("spec: no field %s in %s", name, typeName(t))
	return TV{}
}

func hasField(t types.Type, name string) bool {
	if p, ok := under(t).(*types.Pointer); ok {
		t = p.Elem()
	}
	st, ok := under(t).(*types.Struct)
	if !ok {
		return false
	}
	for i := 0; i < st.NumFields(); i++ {
		if st.Field(i).Name() == name {
			return true
		}
		if st.Field(i).Embedded() && hasField(st.Field(i).Type(), name) {
			return true
		}
	}
	return false
}

func (ex *Exec) fieldAddrNoAssume(p *PtrV, field int) *PtrV {
	tmp := &State{}
	return ex.fieldAddr(tmp, p, field)
}

func (env *SpecEnv) ghostField(base TV, name string) TV {
	t := base.T
	if pt, ok := under(t).(*types.Pointer); ok {
		t = pt.Elem()
	}
	var key *Term
	switch b := base.V.(type) {
	case *PtrV:
		key = ptrTerm(b)
	case IfaceV:
		key = b.Val
	default:
		tool("spec: ghost field of non-pointer")
	}
	tn := typeName(t)
	gs := "int"
	if ts, ok := env.ex.Specs.Types[tn]; ok {
		if g, ok := ts.Ghost[name]; ok {
			gs = g
		}
	}
	srt := SInt
	var gt types.Type = types.Typ[types.Int]
	switch gs {
	case "bool":
		srt = SBool
		gt = types.Typ[types.Bool]
	case "string":
		srt = SStr
		gt = types.Typ[types.String]
	case "bytes":
		// an unbounded ghost byte sequence
		h := env.st.heapGet(tn+".$"+name, SArr(SInt, SArr(SInt, SInt)))
		return TV{ArrayV{Comps: []*Term{Select(h, key)}, N: 1 << 40}, ghostBytesType}
	case "imap":
		// a ghost map from integers to integers (object references)
		h := env.st.heapGet(tn+".$"+name, SArr(SInt, SArr(SInt, SInt)))
		return TV{ArrayV{Comps: []*Term{Select(h, key)}, N: 1 << 40}, ghostIMapType}
	case "bmap":
		h := env.st.heapGet(tn+".$"+name, SArr(SInt, SArr(SInt, SBool)))
		return TV{ArrayV{Comps: []*Term{Select(h, key)}, N: 1 << 40}, ghostBMapType}
	}
	h := env.st.heapGet(tn+".$"+name, SArr(SInt, srt))
	return TV{Scalar{Select(h, key)}, gt}
}

var ghostBytesType = types.NewArray(types.Typ[types.Uint8], 1<<40)
var ghostIMapType = types.NewArray(types.Typ[types.Int], 1<<40)
var ghostBMapType = types.NewArray(types.Typ[types.Bool], 1<<40)

func (env *SpecEnv) ghostType(name string) types.Type {
	kind := env.ex.Specs.GhostVars[name]
	switch kind {
	case "", "int":
		return types.Typ[types.Int]
	case "bool":
		return types.Typ[types.Bool]
	case "string":
		return types.Typ[types.String]
	case "imap":
		return ghostIMapType
	case "bmap":
		return ghostBMapType
	case "bytes":
		return ghostBytesType
	}
	e, err := parser.ParseExpr(kind)
	if err != nil {
		tool("ghostvar $%s: bad type %q", name, kind)
	}
	n := *env
	for _, pk := range env.ex.P.ByPath {
		if pk.Types.Name() == env.ex.Specs.GhostPkg[name] {
			n.pkg = pk.Types
		}
	}
	t := n.resolveType(e)
	if t == nil {
		tool("ghostvar $%s: cannot resolve type %q", name, kind)
	}
	return t
}

func (env *SpecEnv) ghostGlobal(name string) TV {
	gt := env.ghostType(name)
	cs := comps(gt)
	ts := make([]*Term, len(cs))
	for i, c := range cs {
		h := env.st.heapGet("G:$"+name+c.Suffix, SArr(SInt, c.Sort))
		ts[i] = Select(h, Zero)
	}
	v, _ := unflatten(gt, ts)
	return TV{v, gt}
}

func (env *SpecEnv) setGhostGlobal(name string, v TV) {
	gt := env.ghostType(name)
	val := env.coerce(v, gt)
	fl := flatten(val)
	for i, c := range comps(gt) {
		h := env.st.heapGet("G:$"+name+c.Suffix, SArr(SInt, c.Sort))
		env.st.Heap["G:$"+name+c.Suffix] = Store(h, Zero, fl[i])
	}
}

// assignGhost performs one ghost assignment of a hook: a ghost global/local, or a scalar ghost field.
func (env *SpecEnv) assignGhost(gs *GhostSet, i int, v TV) {
	if i >= len(gs.Targets) || gs.Targets[i] == nil {
		env.setGhostGlobal(gs.Names[i], v)
		return
	}
	sel, ok := gs.Targets[i].(*ast.SelectorExpr)
	if !ok || !strings.HasPrefix(sel.Sel.Name, "ghost_") {
		tool("spec: ghost assignment target %s", gs.Names[i])
	}
	base := env.eval(sel.X)
	name := strings.TrimPrefix(sel.Sel.Name, "ghost_")
	cur := env.ghostField(base, name)
	if _, ok := cur.V.(Scalar); !ok {
		tool("spec: ghost assignment to a non-scalar ghost field %s", gs.Names[i])
	}
	var key *Term
	switch b := base.V.(type) {
	case *PtrV:
		key = ptrTerm(b)
	case IfaceV:
		key = b.Val
	}
	t := base.T
	if pt, ok := under(t).(*types.Pointer); ok {
		t = pt.Elem()
	}
	class := typeName(t) + ".$" + name
	val := env.coerce(v, cur.T).(Scalar).T
	h := env.st.heapGet(class, SArr(SInt, val.Sort))
	env.st.Heap[class] = Store(h, key, val)
}

// lvaluePtr evaluates an expression denoting a mutex: a struct-typed field yields its address, a
// pointer-typed expression its value.
func (env *SpecEnv) lvaluePtr(e ast.Expr) TV {
	if sel, ok := e.(*ast.SelectorExpr); ok {
		base := env.eval(sel.X)
		if pt, ok := under(base.T).(*types.Pointer); ok {
			if st, ok := under(pt.Elem()).(*types.Struct); ok {
				if p, ok := base.V.(*PtrV); ok {
					for i := 0; i < st.NumFields(); i++ {
						if st.Field(i).Name() == sel.Sel.Name && isStructT(st.Field(i).Type()) {
							fp := env.ex.fieldAddrNoAssume(p, i)
							return TV{fp, types.NewPointer(st.Field(i).Type())}
						}
					}
				}
			}
		}
	}
	return env.eval(e)
}

// mentionsBound: does the term contain a quantifier-bound variable of the specification language?
func mentionsBound(t *Term) bool {
	if t.Op == "var" && strings.HasPrefix(t.Name, "q_") {
		return true
	}
	for _, a := range t.Args {
		if mentionsBound(a) {
			return true
		}
	}
	return false
}

func isNilTV(tv TV) bool { return tv.V == nil && tv.T == nil }

func (env *SpecEnv) evalBinary(x *ast.BinaryExpr) TV {
	boolT := types.Typ[types.Bool]
	switch x.Op {
	case token.LAND:
		return TV{Scalar{And(env.evalBoolT(x.X), env.evalBoolT(x.Y))}, boolT}
	case token.LOR:
		return TV{Scalar{Or(env.evalBoolT(x.X), env.evalBoolT(x.Y))}, boolT}
	}
	a, b := env.eval(x.X), env.eval(x.Y)
	switch x.Op {
	case token.EQL, token.NEQ:
		var t *Term
		switch {
		case isNilTV(a) && isNilTV(b):
			t = True
		case isNilTV(b):
			t = isNilTerm(a)
		case isNilTV(a):
			t = isNilTerm(b)
		default:
			tt := a.T
			if tt == nil {
				tt = b.T
			}
			// interface == concrete value: box the concrete side
			if _, ai := a.V.(IfaceV); ai {
				if _, bi := b.V.(IfaceV); !bi && b.T != nil {
					b = TV{env.ex.makeIface(env.st, b.V, b.T), a.T}
				}
			} else if _, bi := b.V.(IfaceV); bi && a.T != nil {
				a = TV{env.ex.makeIface(env.st, a.V, a.T), b.T}
				tt = b.T
			}
			env.ex.specEq = true
			t = env.ex.valuesEqual(env.st, a.V, b.V, tt)
			env.ex.specEq = false
		}
		if x.Op == token.NEQ {
			t = Not(t)
		}
		return TV{Scalar{t}, boolT}
	}
	xa, ok1 := a.V.(Scalar)
	xb, ok2 := b.V.(Scalar)
	if !ok1 || !ok2 {
		tool("spec: binary %s on non-scalars", x.Op)
	}
	rt := a.T
	if rt == nil {
		rt = b.T
	}
	switch x.Op {
	case token.LSS:
		return TV{Scalar{Lt(xa.T, xb.T)}, boolT}
	case token.LEQ:
		return TV{Scalar{Le(xa.T, xb.T)}, boolT}
	case token.GTR:
		return TV{Scalar{Gt(xa.T, xb.T)}, boolT}
	case token.GEQ:
		return TV{Scalar{Ge(xa.T, xb.T)}, boolT}
	case token.ADD:
		if xa.T.Sort == SStr {
			return TV{Scalar{UF("sconcat", SStr, xa.T, xb.T)}, rt}
		}
		return TV{Scalar{Add(xa.T, xb.T)}, nil} // specification integers are mathematical
	case token.SUB:
		return TV{Scalar{Sub(xa.T, xb.T)}, nil}
	case token.MUL:
		return TV{Scalar{Mul(xa.T, xb.T)}, nil}
	case token.QUO:
		q, _ := truncDiv(xa.T, xb.T, false)
		return TV{Scalar{q}, nil}
	case token.REM:
		_, r := truncDiv(xa.T, xb.T, false)
		return TV{Scalar{r}, nil}
	}
	tool("spec: unsupported operator %s", x.Op)
	return TV{}
}

func isNilTerm(tv TV) *Term {
	switch v := tv.V.(type) {
	case *PtrV:
		return Eq(ptrTerm(v), Zero)
	case SliceV:
		return Eq(v.Arr, Zero)
	case IfaceV:
		return Eq(v.Tag, Zero)
	case Scalar:
		return Eq(v.T, Zero)
	case *ClosureV, FuncV, BoundV:
		return False
	}
	tool("spec: nil comparison on %T", tv.V)
	return nil
}

func (env *SpecEnv) evalCall(c *ast.CallExpr) TV {
	ex := env.ex
	boolT := types.Typ[types.Bool]
	intT := types.Typ[types.Int]
	if id, ok := c.Fun.(*ast.Ident); ok {
		if m, ok := ex.Specs.Macros[id.Name]; ok {
			if len(m.Params) != len(c.Args) {
				tool("spec: macro %s takes %d arguments", id.Name, len(m.Params))
			}
			inner := env
			for i, prm := range m.Params {
				inner = inner.with(prm, env.eval(c.Args[i]))
			}
			return inner.eval(m.Body)
		}
		if m, ok := ex.Specs.Opaques[id.Name]; ok {
			// opaque predicate over immutable state: an uninterpreted symbol of its arguments. Where the
			// arguments are concrete (no bound variables) and none of them is an object this path is still
			// building, the definition is revealed for exactly these arguments, evaluated in the current
			// state - sound because the body may read write-once locations only (checked here).
			if len(m.Params) != len(c.Args) {
				tool("spec: opaque %s takes %d arguments", id.Name, len(m.Params))
			}
			var fl []*Term
			inner := env
			for i, prm := range m.Params {
				av := env.eval(c.Args[i])
				inner = inner.with(prm, av)
				fl = append(fl, flatten(av.V)...)
			}
			app := UF("opaque:"+id.Name, SBool, fl...)
			reveal := !env.noUnfold
			for _, t := range fl {
				if mentionsBound(t) || (env.st.Fresh[t] && !env.inPost) {
					reveal = false
				}
			}
			if reveal {
				var log []string
				save := env.st.ReadLog
				env.st.ReadLog = &log
				in2 := *inner
				in2.noUnfold = true
				body := in2.evalBoolT(m.Body)
				env.st.ReadLog = save
				for _, class := range log {
					if !preservedClass(class) {
						tool("spec: opaque predicate %s reads mutable state (%s)", id.Name, class)
					}
				}
				env.st.assume(Eq(app, body))
			}
			return TV{Scalar{app}, boolT}
		}
		if m, ok := ex.Specs.SpecFns[id.Name]; ok {
			// recursive specification function: an uninterpreted function plus its defining equation
			// for exactly these arguments (one unfolding per occurrence; the definition must terminate)
			if len(m.Params) != len(c.Args) {
				tool("spec: specfn %s takes %d arguments", id.Name, len(m.Params))
			}
			var fl []*Term
			inner := env
			for i, prm := range m.Params {
				av := env.eval(c.Args[i])
				inner = inner.with(prm, av)
				fl = append(fl, flatten(av.V)...)
			}
			app := UF("specfn:"+id.Name, SInt, fl...)
			if !env.noUnfold {
				in2 := *inner
				in2.noUnfold = true
				body := in2.eval(m.Body)
				env.st.assume(Eq(app, body.V.(Scalar).T))
			}
			return TV{Scalar{app}, intT}
		}
		switch id.Name {
		case "elemtags":
			// elemtags(s): the dynamic type tags of the elements of the interface slice s (its backing row)
			sv, ok := env.eval(c.Args[0]).V.(SliceV)
			tt := env.eval(c.Args[0]).T
			if !ok || tt == nil {
				tool("spec: elemtags of a non-slice")
			}
			et := under(tt).(*types.Slice).Elem()
			h := env.st.heapGet("[]"+typeName(et)+"@tag", heapSort(2, SInt))
			return TV{Scalar{Select(h, sv.Arr)}, nil}
		case "below":
			// below(x): the object(s) x refers to already exist (at or before the current allocation frontier)
			v := env.eval(c.Args[0])
			var cs []*Term
			switch x := v.V.(type) {
			case *PtrV:
				cs = append(cs, Le(ptrTerm(x), env.st.Frontier))
			case SliceV:
				cs = append(cs, Le(x.Arr, env.st.Frontier))
			case IfaceV:
				cs = append(cs, Le(x.Val, env.st.Frontier))
			case Scalar:
				cs = append(cs, Le(x.T, env.st.Frontier))
			default:
				tool("spec: below of %T", v.V)
			}
			return TV{Scalar{And(cs...)}, boolT}
		case "allbelow":
			// allbelow(s): every element of the pointer slice s refers to an object that already exists
			// (allocated at or before the current allocation frontier). True of every real execution; as a
			// loop invariant it lets "the object allocated next differs from all of them" be derived.
			a0 := env.eval(c.Args[0])
			sv, ok := a0.V.(SliceV)
			if !ok || a0.T == nil {
				tool("spec: allbelow of a non-slice")
			}
			et := under(a0.T).(*types.Slice).Elem()
			cs := comps(et)
			if len(cs) != 1 || cs[0].Sort != SInt {
				tool("spec: allbelow: elements of %s are not references", typeName(et))
			}
			h := env.st.heapGet("[]"+typeName(et)+cs[0].Suffix, heapSort(2, SInt))
			k := Fresh("q_ab", SInt)
			return TV{Scalar{Forall([]*Term{k}, Implies(And(Le(Zero, k), Lt(k, sv.Len)), Le(Select(Select(h, sv.Arr), Add(sv.Off, k)), env.st.Frontier)))}, boolT}
		case "ref":
			// ref(p): the allocation order of the object p points to (later allocations are larger)
			v := env.eval(c.Args[0])
			switch p := v.V.(type) {
			case *PtrV:
				return TV{Scalar{ptrTerm(p)}, intT}
			case Scalar:
				return TV{Scalar{p.T}, intT}
			}
			tool("spec: ref of a non-pointer")
		case "view":
			// view(x, I): the interface value x seen under interface type I (ghost fields are per static type)
			v := env.eval(c.Args[0])
			t := env.resolveType(c.Args[1])
			if _, ok := v.V.(IfaceV); !ok || t == nil {
				tool("spec: view(x, InterfaceType)")
			}
			return TV{v.V, t}
		case "elems":
			// elems(s): the row of element values of a slice whose elements are single words (pointers, ints)
			a0 := env.eval(c.Args[0])
			sv, ok := a0.V.(SliceV)
			if !ok || a0.T == nil {
				tool("spec: elems of a non-slice")
			}
			et := under(a0.T).(*types.Slice).Elem()
			cs := comps(et)
			if len(cs) != 1 {
				tool("spec: elems: element type %s is not a single word", typeName(et))
			}
			h := env.st.heapGet("[]"+typeName(et)+cs[0].Suffix, heapSort(2, cs[0].Sort))
			return TV{Scalar{Select(h, sv.Arr)}, nil}
		case "subslice":
			// subslice(a, b): a is a window of b - same backing array, inside b's [off, off+len)
			a, ok1 := env.eval(c.Args[0]).V.(SliceV)
			b, ok2 := env.eval(c.Args[1]).V.(SliceV)
			if !ok1 || !ok2 {
				tool("spec: subslice of non-slices")
			}
			return TV{Scalar{And(Eq(a.Arr, b.Arr), Le(b.Off, a.Off), Le(Add(a.Off, a.Len), Add(b.Off, b.Len)))}, boolT}
		case "samearray":
			// samearray(a, b): the two slices share backing array, offset and capacity (lengths may differ)
			a, ok1 := env.eval(c.Args[0]).V.(SliceV)
			b, ok2 := env.eval(c.Args[1]).V.(SliceV)
			if !ok1 || !ok2 {
				tool("spec: samearray of non-slices")
			}
			return TV{Scalar{And(Eq(a.Arr, b.Arr), Eq(a.Off, b.Off), Eq(a.Cap, b.Cap))}, boolT}
		case "sliceoff":
			sv, ok := env.eval(c.Args[0]).V.(SliceV)
			if !ok {
				tool("spec: sliceoff of a non-slice")
			}
			return TV{Scalar{sv.Off}, intT}
		case "typetag":
			t := env.resolveType(c.Args[0])
			if t == nil {
				tool("spec: typetag: unknown type %s", exprString(c.Args[0]))
			}
			return TV{Scalar{IntLit(tagOf(t))}, intT}
		case "old":
			if env.old == nil {
				return env.eval(c.Args[0])
			}
			n := *env
			n.st = env.oldView()
			n.old = nil
			// parameters named in the environment already hold entry values
			for k, v := range env.vars {
				if strings.HasPrefix(k, "old_") {
					n.vars = copyVars(n.vars)
					n.vars[strings.TrimPrefix(k, "old_")] = v
				}
			}
			res := n.eval(c.Args[0])
			// facts learned while reading the old state (value ranges) hold in the current path too
			env.st.PC = n.st.PC
			return res
		case "implies":
			return TV{Scalar{Implies(env.evalBoolT(c.Args[0]), env.evalBoolT(c.Args[1]))}, boolT}
		case "len":
			v := env.eval(c.Args[0])
			switch x := v.V.(type) {
			case SliceV:
				return TV{Scalar{x.Len}, intT}
			case ArrayV:
				return TV{Scalar{IntLit(x.N)}, intT}
			case Scalar:
				if x.T.Sort == SStr {
					return TV{Scalar{SLen(x.T)}, intT}
				}
				if _, ok := under(v.T).(*types.Map); ok {
					return TV{Scalar{Select(env.st.heapGet(mapClass(v.T)+"#len", SArr(SInt, SInt)), x.T)}, intT}
				}
			}
			tool("spec: len of %T", v.V)
		case "cap":
			v := env.eval(c.Args[0])
			if s, ok := v.V.(SliceV); ok {
				return TV{Scalar{s.Cap}, intT}
			}
		case "forall", "exists":
			// forall(i, lo, hi, body): lo <= i < hi
			// forall(i, j, lo, hi, body): both variables range over [lo, hi) - one flat quantifier
			if bid1, ok1 := c.Args[0].(*ast.Ident); ok1 && len(c.Args) == 5 && id.Name == "forall" {
				if bid2, ok2 := c.Args[1].(*ast.Ident); ok2 {
					b1 := Fresh("q_"+bid1.Name, SInt)
					b2 := Fresh("q_"+bid2.Name, SInt)
					lo := env.eval(c.Args[2]).V.(Scalar).T
					hi := env.eval(c.Args[3]).V.(Scalar).T
					inner := env.with(bid1.Name, TV{Scalar{b1}, intT}).with(bid2.Name, TV{Scalar{b2}, intT})
					body := inner.evalBoolT(c.Args[4])
					rng := And(Le(lo, b1), Lt(b1, hi), Le(lo, b2), Lt(b2, hi))
					return TV{Scalar{Forall([]*Term{b1, b2}, Implies(rng, body))}, boolT}
				}
			}
			bid, ok := c.Args[0].(*ast.Ident)
			if !ok || len(c.Args) != 4 {
				tool("spec: forall(i, lo, hi, body)")
			}
			bv := Fresh("q_"+bid.Name, SInt)
			lo := env.eval(c.Args[1]).V.(Scalar).T
			hi := env.eval(c.Args[2]).V.(Scalar).T
			inner := env.with(bid.Name, TV{Scalar{bv}, intT})
			body := inner.evalBoolT(c.Args[3])
			rng := And(Le(lo, bv), Lt(bv, hi))
			if id.Name == "forall" {
				return TV{Scalar{Forall([]*Term{bv}, Implies(rng, body))}, boolT}
			}
			return TV{Scalar{Exists([]*Term{bv}, And(rng, body))}, boolT}
		case "typeis":
			v := env.eval(c.Args[0])
			iv, ok := v.V.(IfaceV)
			if !ok {
				tool("spec: typeis on non-interface")
			}
			t := env.resolveType(c.Args[1])
			if t == nil {
				tool("spec: typeis: unknown type %s", exprString(c.Args[1]))
			}
			// a value whose static type is an interface with (at least) the asked-for methods has them iff it is not nil
			if it, isI := under(t).(*types.Interface); isI && v.T != nil && !it.Empty() {
				if _, srcI := under(v.T).(*types.Interface); srcI && types.Implements(v.T, it) {
					return TV{Scalar{Neq(iv.Tag, Zero)}, boolT}
				}
			}
			return TV{Scalar{ex.assertOK(env.st, iv, t)}, boolT}
		case "as":
			// as(x, T): the value of interface x viewed as concrete T (meaningful under typeis)
			v := env.eval(c.Args[0])
			iv, ok := v.V.(IfaceV)
			t := env.resolveType(c.Args[1])
			if !ok || t == nil {
				tool("spec: as(x, T)")
			}
			return TV{ex.unbox(env.st, iv, t), t}
		case "iface":
			// iface(tag, val, I): the interface value of type I with the given dynamic type tag and value
			// (the inverse of tagof / valof; used to state invariants over tables that store the two halves)
			tg := env.eval(c.Args[0]).V.(Scalar).T
			vl := env.eval(c.Args[1]).V.(Scalar).T
			t := env.resolveType(c.Args[2])
			if t == nil {
				tool("spec: iface(tag, val, I)")
			}
			return TV{IfaceV{tg, vl}, t}
		case "substr":
			sv := env.eval(c.Args[0]).V.(Scalar).T
			lo := env.eval(c.Args[1]).V.(Scalar).T
			hi := env.eval(c.Args[2]).V.(Scalar).T
			if lo.IsInt() && lo.Int.Sign() == 0 && hi == SLen(sv) {
				return TV{Scalar{sv}, types.Typ[types.String]}
			}
			return TV{Scalar{UF("substr", SStr, sv, lo, hi)}, types.Typ[types.String]}
		case "bstr":
			// bstr(b, start, n): the string made of bytes b[start : start+n]
			b := env.eval(c.Args[0]).V.(SliceV)
			start := env.eval(c.Args[1]).V.(Scalar).T
			n := env.eval(c.Args[2]).V.(Scalar).T
			mem := Select(env.st.heapGet("[]uint8", heapSort(2, SInt)), b.Arr)
			r := UF("str:ofbytes", SStr, mem, Add(b.Off, start), n)
			k := Fresh("k", SInt)
			env.st.assume(Implies(Le(Zero, n), Eq(UF("slen", SInt, r), n)))
			env.st.assume(Forall([]*Term{k}, Implies(And(Le(Zero, k), Lt(k, n)), Eq(UF("sat", SInt, r, k), Select(mem, Add(Add(b.Off, start), k))))))
			return TV{Scalar{r}, types.Typ[types.String]}
		case "be32s":
			// big-endian signed 32-bit value of four bytes
			var b [4]*Term
			for i := 0; i < 4; i++ {
				b[i] = env.eval(c.Args[i]).V.(Scalar).T
			}
			u := Add(Add(Add(Mul(b[0], IntLit(16777216)), Mul(b[1], IntLit(65536))), Mul(b[2], IntLit(256))), b[3])
			return TV{Scalar{Ite(Lt(b[0], IntLit(128)), u, Sub(u, IntLit(4294967296)))}, nil}
		case "pow2":
			k := env.eval(c.Args[0]).V.(Scalar).T
			if k.IsInt() && k.Int.IsInt64() && k.Int.Int64() >= 0 && k.Int.Int64() < 128 {
				return TV{Scalar{BigLit(pow2(uint(k.Int.Int64())))}, nil}
			}
			res := Zero
			for i := 63; i >= 0; i-- {
				res = Ite(Eq(k, IntLit(int64(i))), BigLit(pow2(uint(i))), res)
			}
			return TV{Scalar{res}, nil}
		case "min", "max":
			a := env.eval(c.Args[0]).V.(Scalar).T
			b := env.eval(c.Args[1]).V.(Scalar).T
			if id.Name == "min" {
				return TV{Scalar{Ite(Lt(b, a), b, a)}, nil}
			}
			return TV{Scalar{Ite(Lt(a, b), b, a)}, nil}
		case "ufStr", "ufInt", "ufBool":
			lit, ok := c.Args[0].(*ast.BasicLit)
			if !ok {
				tool("spec: %s needs a literal name", id.Name)
			}
			nm, _ := strconv.Unquote(lit.Value)
			var fl []*Term
			for _, a := range c.Args[1:] {
				v := env.eval(a)
				if isNilTV(v) {
					fl = append(fl, Zero)
					continue
				}
				fl = append(fl, flatten(v.V)...)
			}
			switch id.Name {
			case "ufStr":
				return TV{Scalar{UF("spec:"+nm, SStr, fl...)}, types.Typ[types.String]}
			case "ufInt":
				return TV{Scalar{UF("spec:"+nm, SInt, fl...)}, intT}
			}
			return TV{Scalar{UF("spec:"+nm, SBool, fl...)}, boolT}
		case "inv":
			v := env.eval(c.Args[0])
			t := v.T
			if pt, ok := under(t).(*types.Pointer); ok {
				t = pt.Elem()
			}
			ts := ex.Specs.Types[typeName(t)]
			if ts == nil {
				tool("spec: inv(%s): no type block for %s", exprString(c.Args[0]), typeName(t))
			}
			inner := env.with("self", v)
			var cs []*Term
			for _, cl := range ts.Invariant {
				cs = append(cs, inner.evalBoolT(cl.Expr))
			}
			return TV{Scalar{And(cs...)}, boolT}
		case "holds", "holdsR":
			p := env.lvaluePtr(c.Args[0])
			want := 2
			if id.Name == "holdsR" {
				want = 1
			}
			if env.assumeLocks {
				env.st.Locks[lockKey(p)] = want
				if pv, ok := p.V.(*PtrV); ok {
					if owner, tn, mu, ok := env.ex.monitorOwner(pv); ok {
						env.st.Held = append(env.st.Held, heldMon{owner, tn, mu, lockKey(p)})
					}
				}
				return TV{Scalar{True}, boolT}
			}
			return TV{Scalar{BoolLit(env.st.Locks[lockKey(p)] >= want)}, boolT}
		case "cancelled":
			// cancelled(f): the cancel function f (a context.CancelFunc) has been called
			f := env.eval(c.Args[0]).V.(Scalar).T
			return TV{Scalar{Select(env.st.heapGet(ctxCancelledClass, SArr(SInt, SBool)), f)}, boolT}
		case "closed":
			// closed(ch): close(ch) has been executed
			ch := env.eval(c.Args[0]).V.(Scalar).T
			return TV{Scalar{Select(env.st.heapGet(chanClosedClass, SArr(SInt, SBool)), ch)}, boolT}
		case "nolocks":
			n := 0
			for _, v := range env.st.Locks {
				if v > 0 {
					n++
				}
			}
			return TV{Scalar{BoolLit(n == 0)}, boolT}
		case "fresh":
			p := env.eval(c.Args[0])
			var fr *Term
			if env.old != nil {
				fr = env.old.Frontier
			} else {
				fr = env.st.Frontier
			}
			switch v := p.V.(type) {
			case *PtrV:
				return TV{Scalar{Lt(fr, ptrTerm(v))}, boolT}
			case SliceV:
				return TV{Scalar{Lt(fr, v.Arr)}, boolT}
			case Scalar:
				return TV{Scalar{Lt(fr, v.T)}, boolT}
			case IfaceV:
				return TV{Scalar{Lt(fr, v.Val)}, boolT}
			}
			tool("spec: fresh of %T", p.V)
		case "sat":
			s := env.eval(c.Args[0]).V.(Scalar).T
			i := env.eval(c.Args[1]).V.(Scalar).T
			return TV{Scalar{SAt(s, i)}, intT}
		case "tagof":
			v := env.eval(c.Args[0])
			return TV{Scalar{v.V.(IfaceV).Tag}, intT}
		case "valof":
			v := env.eval(c.Args[0])
			iv, ok := v.V.(IfaceV)
			if !ok {
				tool("spec: valof of a non-interface value")
			}
			return TV{Scalar{iv.Val}, intT}
		case "ite":
			cnd := env.evalBoolT(c.Args[0])
			a, b := env.eval(c.Args[1]), env.eval(c.Args[2])
			fa, fb := flatten(a.V), flatten(b.V)
			out := make([]*Term, len(fa))
			for i := range fa {
				out[i] = Ite(cnd, fa[i], fb[i])
			}
			t := a.T
			if t == nil {
				t = b.T
			}
			if t == nil {
				return TV{Scalar{out[0]}, nil}
			}
			v, _ := unflatten(t, out)
			return TV{v, t}
		case "mapAll":
			// mapAll(m, k, v, body): every entry (k, v) of map m satisfies body
			m := env.eval(c.Args[0])
			mt, ok := under(m.T).(*types.Map)
			kid, ok1 := c.Args[1].(*ast.Ident)
			vid, ok2 := c.Args[2].(*ast.Ident)
			if !ok || !ok1 || !ok2 || len(c.Args) != 4 {
				tool("spec: mapAll(m, k, v, body)")
			}
			var bvs []*Term
			for _, cp := range comps(mt.Key()) {
				bvs = append(bvs, Fresh("q_"+kid.Name+cp.Suffix, cp.Sort))
			}
			kv, _ := unflatten(mt.Key(), bvs)
			ref := m.V.(Scalar).T
			key := ex.mapKey(env.st, kv, mt.Key())
			has := And(Neq(ref, Zero), ex.mapHas(env.st, m.T, ref, key))
			inner := env.with(kid.Name, TV{kv, mt.Key()}).with(vid.Name, TV{ex.mapGet(env.st, m.T, ref, key), mt.Elem()})
			body := inner.evalBoolT(c.Args[3])
			return TV{Scalar{Forall(bvs, Implies(has, body))}, boolT}
		case "mapHas":
			m := env.eval(c.Args[0])
			k := env.eval(c.Args[1])
			mt := under(m.T).(*types.Map)
			key := ex.mapKey(env.st, env.coerce(k, mt.Key()), mt.Key())
			return TV{Scalar{And(Neq(m.V.(Scalar).T, Zero), ex.mapHas(env.st, m.T, m.V.(Scalar).T, key))}, boolT}
		case "mapGet":
			m := env.eval(c.Args[0])
			k := env.eval(c.Args[1])
			mt := under(m.T).(*types.Map)
			key := ex.mapKey(env.st, env.coerce(k, mt.Key()), mt.Key())
			return TV{ex.mapGet(env.st, m.T, m.V.(Scalar).T, key), mt.Elem()}
		}
		// conversion to a named/basic type?
		if t := env.resolveType(c.Fun); t != nil && len(c.Args) == 1 {
			v := env.eval(c.Args[0])
			return env.convertTo(v, t)
		}
		if tv, ok := env.vars[id.Name]; ok {
			_ = tv
		}
		if env.pkg != nil {
			if o, ok := env.pkg.Scope().Lookup(id.Name).(*types.Func); ok {
				fn := ex.P.SSA.FuncValue(o)
				return env.callPure(fn, nil, c.Args)
			}
		}
		tool("spec: unknown function %s", id.Name)
	}
	if sel, ok := c.Fun.(*ast.SelectorExpr); ok {
		// pkg.Func(...) or pkg.Type(x)
		if id, ok := sel.X.(*ast.Ident); ok {
			if _, isVar := env.vars[id.Name]; !isVar {
				if pk := env.lookupPkg(id.Name); pk != nil {
					o := pk.Scope().Lookup(sel.Sel.Name)
					switch oo := o.(type) {
					case *types.Func:
						fn := ex.P.SSA.FuncValue(oo)
						return env.callPure(fn, nil, c.Args)
					case *types.TypeName:
						v := env.eval(c.Args[0])
						return env.convertTo(v, oo.Type())
					}
					tool("spec: %s.%s is not callable", id.Name, sel.Sel.Name)
				}
			}
		}
		// method call on a value
		recv := env.eval(sel.X)
		if recv.T == nil {
			tool("spec: method call on untyped value")
		}
		ms := ex.P.SSA.MethodSets.MethodSet(recv.T)
		msel := ms.Lookup(env.pkg, sel.Sel.Name)
		rv := recv
		if msel == nil {
			if _, isPtr := under(recv.T).(*types.Pointer); !isPtr {
				tool("spec: no method %s on %s", sel.Sel.Name, typeName(recv.T))
			}
		}
		if msel == nil {
			tool("spec: no method %s on %s", sel.Sel.Name, typeName(recv.T))
		}
		if _, isI := under(recv.T).(*types.Interface); isI {
			tool("spec: interface method call %s in specification", sel.Sel.Name)
		}
		fn := ex.P.SSA.MethodValue(msel)
		return env.callPure(fn, &rv, c.Args)
	}
	if t := env.resolveType(c.Fun); t != nil && len(c.Args) == 1 {
		return env.convertTo(env.eval(c.Args[0]), t)
	}
	tool("spec: unsupported call %s", exprString(c))
	return TV{}
}

func copyVars(m map[string]TV) map[string]TV {
	o := map[string]TV{}
	for k, v := range m {
		o[k] = v
	}
	return o
}

func (env *SpecEnv) convertTo(v TV, t types.Type) TV {
	if isNilTV(v) {
		return TV{zeroValue(t), t}
	}
	if isIntT(t) {
		if s, ok := v.V.(Scalar); ok && s.T.Sort == SInt {
			return TV{Scalar{wrapInt(s.T, t)}, t}
		}
	}
	if v.T != nil {
		return TV{env.ex.convert(env.st, v.V, v.T, t), t}
	}
	return TV{v.V, t}
}

// coerce adapts an untyped constant / nil to the expected parameter type.
func (env *SpecEnv) coerce(v TV, t types.Type) Value {
	if isNilTV(v) {
		return zeroValue(t)
	}
	if _, isI := under(t).(*types.Interface); isI && v.T != nil {
		if _, already := v.V.(IfaceV); !already {
			return env.ex.makeIface(env.st, v.V, v.T)
		}
	}
	return v.V
}

// callPure symbolically executes a (loop-free or contract-carrying) function and merges its results.
func (env *SpecEnv) callPure(fn *ssa.Function, recv *TV, argExprs []ast.Expr) TV {
	ex := env.ex
	if fn == nil {
		tool("spec: function has no SSA body")
	}
	var args []Value
	pi := 0
	if recv != nil {
		args = append(args, recv.V)
		pi = 1
	}
	for i, a := range argExprs {
		tv := env.eval(a)
		var pt types.Type
		if pi+i < len(fn.Params) {
			pt = fn.Params[pi+i].Type()
		}
		if pt != nil {
			args = append(args, env.coerce(tv, pt))
		} else {
			args = append(args, tv.V)
		}
	}
	rt := resultType(fn.Signature)
	return TV{ex.evalPureFn(env.st, fn, args), rt}
}

// evalPureFn runs fn on a scratch copy of the state and merges the returned values with ite.
func (ex *Exec) evalPureFn(st *State, fn *ssa.Function, args []Value, binds ...Value) Value {
	name := specName(fn)
	if sp := ex.Specs.Funcs[name]; sp != nil && !ex.inRepoBody(fn) {
		// extern pure function with contract
		tmp := st
		fr := &Frame{Fn: fn, Regs: map[ssa.Value]Value{}}
		save := ex.inSpecCall
		ex.inSpecCall = true
		defer func() { ex.inSpecCall = save }()
		return ex.applyContract(tmp, fr, sp, fn, fn.Signature, args, token.NoPos, "")
	}
	if m, ok := models[fn.String()]; ok {
		fr := &Frame{Fn: fn, Regs: map[ssa.Value]Value{}}
		return m(ex, st, fr, fn, args, token.NoPos)
	}
	if !ex.inRepo(fn) {
		fr := &Frame{Fn: fn, Regs: map[ssa.Value]Value{}}
		if res, ok := ex.modelByPattern(st, fr, fn, fn.String(), args, token.NoPos); ok {
			return res
		}
	}
	if fn.Blocks == nil {
		fr := &Frame{Fn: fn, Regs: map[ssa.Value]Value{}}
		if res, ok := ex.modelByPattern(st, fr, fn, fn.String(), args, token.NoPos); ok {
			return res
		}
		tool("spec: pure call to %s which has no body and no model", name)
	}
	sub := st.clone()
	sub.Frames = nil
	saved := ex.pure
	savedTop := ex.TopName
	pc := &pureCollector{base: sub.PC}
	ex.pure = pc
	pf := ex.pushFrame(sub, fn, args, nil, 0)
	for i, fv := range fn.FreeVars {
		if i < len(binds) {
			pf.Regs[fv] = binds[i]
		}
	}
	paths0 := ex.Paths
	ex.run(sub)
	ex.Paths = paths0
	ex.pure = saved
	ex.TopName = savedTop
	if len(pc.results) == 0 {
		tool("spec: pure call to %s produced no result (loops without invariant?)", name)
	}
	for _, r := range pc.results {
		for _, f := range r.facts {
			st.assume(Implies(r.cond, f))
		}
	}
	rt := resultType(fn.Signature)
	acc := flatten(pc.results[len(pc.results)-1].val)
	for i := len(pc.results) - 2; i >= 0; i-- {
		fl := flatten(pc.results[i].val)
		for j := range acc {
			acc[j] = Ite(pc.results[i].cond, fl[j], acc[j])
		}
	}
	v, _ := unflatten(rt, acc)
	return v
}

type bigInt = mathBig
