package main

import (
	"fmt"
	"go/types"
	"math/big"
	"strings"

	"golang.org/x/tools/go/ssa"
)

// Symbolic Go values. Every value flattens to a list of SMT components (see comps()).
type Value interface{}

type Scalar struct{ T *Term } // bool, ints, string, chan, map (ref), unsafe.Pointer, opaque func, float (opaque)

type StructV struct{ F []Value }

type SliceV struct{ Arr, Off, Len, Cap *Term }

type IfaceV struct{ Tag, Val *Term }

// ArrayV is a fixed-size array value; one SMT array per flattened element component.
type ArrayV struct {
	Comps []*Term
	N     int64
}

type TupleV struct{ V []Value }

type ClosureV struct {
	Fn   *ssa.Function
	Bind []Value
	ID   int64
}

type FuncV struct{ Fn *ssa.Function }

// BoundV is a bound method value (x.M as a value) or an interface method value.
type BoundV struct {
	Fn   *ssa.Function
	Recv Value
}

type RootKind int

const (
	RLocal RootKind = iota
	RObj
	RElem
)

type PathElem struct {
	Field int   // field index, or -1
	Index *Term // array index, when Field == -1
}

// PtrV is a pointer. RLocal: into a local cell (never escapes). RObj: a heap object of class Class
// at Ref (optionally one field / index deep). RElem: element Idx of slice backing array Arr.
type PtrV struct {
	Root  RootKind
	Cell  *Cell
	Ref   *Term
	Class string     // RObj: class prefix (type name or "G:pkg.var")
	RT    types.Type // RObj: type of the root object
	Arr   *Term
	Idx   *Term
	Path  []PathElem
	Elem  types.Type // pointee type
}

type Cell struct {
	ID   int
	Name string
	Typ  types.Type
}

func (c *Cell) String() string { return fmt.Sprintf("%s#%d", c.Name, c.ID) }

// ---------- type classification ----------

func under(t types.Type) types.Type { return t.Underlying() }

func isStructT(t types.Type) bool { _, ok := under(t).(*types.Struct); return ok }

func typeName(t types.Type) string {
	switch tt := t.(type) {
	case *types.Named:
		o := tt.Obj()
		n := o.Name()
		if o.Pkg() != nil {
			n = o.Pkg().Name() + "." + n
		}
		if ta := tt.TypeArgs(); ta != nil && ta.Len() > 0 {
			var as []string
			for i := 0; i < ta.Len(); i++ {
				as = append(as, typeName(ta.At(i)))
			}
			n += "[" + strings.Join(as, ",") + "]"
		}
		return n
	case *types.Alias:
		return typeName(types.Unalias(tt))
	case *types.Pointer:
		return "*" + typeName(tt.Elem())
	case *types.Slice:
		return "[]" + typeName(tt.Elem())
	case *types.Array:
		return fmt.Sprintf("[%d]%s", tt.Len(), typeName(tt.Elem()))
	case *types.Map:
		return "map[" + typeName(tt.Key()) + "]" + typeName(tt.Elem())
	case *types.Basic:
		// byte and rune are aliases: one memory class per underlying kind
		if k := tt.Kind(); k > types.Invalid && k < types.UntypedBool && types.Typ[k] != nil {
			return types.Typ[k].Name()
		}
		return tt.Name()
	case *types.Interface:
		if tt.Empty() {
			return "any"
		}
		return "iface{" + fmt.Sprint(tt.NumMethods()) + "}"
	case *types.Struct:
		var fs []string
		for i := 0; i < tt.NumFields(); i++ {
			fs = append(fs, tt.Field(i).Name())
		}
		return "struct{" + strings.Join(fs, ",") + "}"
	case *types.Signature:
		return "func"
	case *types.Chan:
		return "chan " + typeName(tt.Elem())
	case *types.Tuple:
		return "tuple"
	}
	return t.String()
}

type Comp struct {
	Suffix string
	Sort   *Sort
}

var compsMemo = map[types.Type][]Comp{}

// comps lists the SMT components a value of type t flattens to.
func comps(t types.Type) []Comp {
	if c, ok := compsMemo[t]; ok {
		return c
	}
	var out []Comp
	switch u := under(t).(type) {
	case *types.Basic:
		switch {
		case u.Info()&types.IsBoolean != 0:
			out = []Comp{{"", SBool}}
		case u.Info()&types.IsString != 0:
			out = []Comp{{"", SStr}}
		default:
			out = []Comp{{"", SInt}}
		}
	case *types.Pointer, *types.Map, *types.Chan, *types.Signature:
		out = []Comp{{"", SInt}}
	case *types.Slice:
		out = []Comp{{"@arr", SInt}, {"@off", SInt}, {"@len", SInt}, {"@cap", SInt}}
	case *types.Interface:
		out = []Comp{{"@tag", SInt}, {"@val", SInt}}
	case *types.Struct:
		for i := 0; i < u.NumFields(); i++ {
			for _, c := range comps(u.Field(i).Type()) {
				out = append(out, Comp{"." + u.Field(i).Name() + c.Suffix, c.Sort})
			}
		}
	case *types.Array:
		for _, c := range comps(u.Elem()) {
			out = append(out, Comp{"[]" + c.Suffix, SArr(SInt, c.Sort)})
		}
	case *types.Tuple:
		for i := 0; i < u.Len(); i++ {
			for _, c := range comps(u.At(i).Type()) {
				out = append(out, Comp{fmt.Sprintf("#%d%s", i, c.Suffix), c.Sort})
			}
		}
	default:
		out = []Comp{{"", SInt}}
	}
	compsMemo[t] = out
	return out
}

// ptrTerm flattens a pointer to an Int term.
func ptrTerm(p *PtrV) *Term {
	switch p.Root {
	case RObj:
		if len(p.Path) == 0 {
			return p.Ref
		}
		name := "addr:" + p.Class
		args := []*Term{p.Ref}
		for _, e := range p.Path {
			if e.Field >= 0 {
				name += fmt.Sprintf(".%d", e.Field)
			} else {
				name += "[]"
				args = append(args, e.Index)
			}
		}
		return UF(name, SInt, args...)
	case RElem:
		return UF("addr:elem:"+typeName(p.Elem), SInt, p.Arr, p.Idx)
	case RLocal:
		return Var(fmt.Sprintf("addr:local!%d", p.Cell.ID), SInt)
	}
	panic("ptrTerm")
}

func flatten(v Value) []*Term {
	switch x := v.(type) {
	case Scalar:
		return []*Term{x.T}
	case *PtrV:
		return []*Term{ptrTerm(x)}
	case StructV:
		var out []*Term
		for _, f := range x.F {
			out = append(out, flatten(f)...)
		}
		return out
	case SliceV:
		return []*Term{x.Arr, x.Off, x.Len, x.Cap}
	case IfaceV:
		return []*Term{x.Tag, x.Val}
	case ArrayV:
		return x.Comps
	case TupleV:
		var out []*Term
		for _, f := range x.V {
			out = append(out, flatten(f)...)
		}
		return out
	case *ClosureV:
		return []*Term{IntLit(x.ID)}
	case FuncV:
		return []*Term{UF("funcaddr:"+x.Fn.String(), SInt)}
	case BoundV:
		return []*Term{Fresh("boundmethod", SInt)}
	}
	panic(fmt.Sprintf("flatten: %T", v))
}

// unflatten rebuilds a value of type t from components, consuming them from ts.
func unflatten(t types.Type, ts []*Term) (Value, []*Term) {
	switch u := under(t).(type) {
	case *types.Pointer:
		return objPtr(ts[0], u.Elem()), ts[1:]
	case *types.Slice:
		return SliceV{ts[0], ts[1], ts[2], ts[3]}, ts[4:]
	case *types.Interface:
		return IfaceV{ts[0], ts[1]}, ts[2:]
	case *types.Struct:
		sv := StructV{}
		for i := 0; i < u.NumFields(); i++ {
			var f Value
			f, ts = unflatten(u.Field(i).Type(), ts)
			sv.F = append(sv.F, f)
		}
		return sv, ts
	case *types.Array:
		n := len(comps(u.Elem()))
		return ArrayV{Comps: ts[:n], N: u.Len()}, ts[n:]
	case *types.Tuple:
		tv := TupleV{}
		for i := 0; i < u.Len(); i++ {
			var f Value
			f, ts = unflatten(u.At(i).Type(), ts)
			tv.V = append(tv.V, f)
		}
		return tv, ts
	case *types.Signature:
		if ts[0].IsInt() {
			if c, ok := closureTable[ts[0].Int.Int64()]; ok {
				return c, ts[1:]
			}
		}
		return Scalar{ts[0]}, ts[1:]
	}
	return Scalar{ts[0]}, ts[1:]
}

var closureTable = map[int64]*ClosureV{}
var closureSeq int64 = 7000000

// objPtr makes a pointer to a heap object of type elem at ref.
func objPtr(ref *Term, elem types.Type) *PtrV {
	return &PtrV{Root: RObj, Ref: ref, Class: classOf(elem), RT: elem, Elem: elem}
}

func classOf(t types.Type) string {
	if isStructT(t) {
		return typeName(t)
	}
	return "cell:" + typeName(t)
}

// freshValue makes an unconstrained symbolic value of type t (constraints: see typeInv).
func freshValue(prefix string, t types.Type) Value {
	cs := comps(t)
	ts := make([]*Term, len(cs))
	for i, c := range cs {
		ts[i] = Fresh(prefix+c.Suffix, c.Sort)
	}
	v, _ := unflatten(t, ts)
	return v
}

func namedValue(name string, t types.Type) Value {
	cs := comps(t)
	ts := make([]*Term, len(cs))
	for i, c := range cs {
		ts[i] = Var(name+c.Suffix, c.Sort)
	}
	v, _ := unflatten(t, ts)
	return v
}

func pow2(n uint) *big.Int { return new(big.Int).Lsh(big.NewInt(1), n) }

func intRange(b *types.Basic, sizes types.Sizes) (lo, hi *big.Int, bits uint, signed, ok bool) {
	if b.Info()&types.IsInteger == 0 {
		return nil, nil, 0, false, false
	}
	bits = uint(sizes.Sizeof(b) * 8)
	if b.Kind() == types.UntypedInt || b.Kind() == types.UntypedRune {
		return nil, nil, 0, false, false
	}
	signed = b.Info()&types.IsUnsigned == 0
	if signed {
		hi = new(big.Int).Sub(pow2(bits-1), big.NewInt(1))
		lo = new(big.Int).Neg(pow2(bits - 1))
	} else {
		lo = big.NewInt(0)
		hi = new(big.Int).Sub(pow2(bits), big.NewInt(1))
	}
	return lo, hi, bits, signed, true
}

var stdSizes = types.SizesFor("gc", "amd64")

// typeInv returns the facts every value of type t satisfies (ranges, slice header sanity,
// pointers not beyond the allocation frontier).
func typeInv(t types.Type, v Value, frontier *Term) []*Term {
	var out []*Term
	switch u := under(t).(type) {
	case *types.Basic:
		if lo, hi, _, _, ok := intRange(u, stdSizes); ok {
			x := v.(Scalar).T
			out = append(out, Le(BigLit(lo), x), Le(x, BigLit(hi)))
		}
		if u.Info()&types.IsString != 0 {
			out = append(out, strFacts(v.(Scalar).T)...)
		}
	case *types.Pointer:
		if p, ok := v.(*PtrV); ok && p.Root == RObj && len(p.Path) == 0 && frontier != nil {
			out = append(out, Le(p.Ref, frontier))
		}
	case *types.Map, *types.Chan:
		out = append(out, Le(Zero, v.(Scalar).T))
		if frontier != nil {
			out = append(out, Le(v.(Scalar).T, frontier))
		}
	case *types.Slice:
		s := v.(SliceV)
		out = append(out, Le(Zero, s.Off), Le(Zero, s.Len), Le(s.Len, s.Cap), Le(Zero, s.Arr),
			Le(s.Cap, BigLit(pow2(48))), Le(s.Off, BigLit(pow2(48))))
		if frontier != nil {
			out = append(out, Le(s.Arr, frontier))
		}
		// nil slice: arr == 0 ==> len == cap == 0
		out = append(out, Implies(Eq(s.Arr, Zero), And(Eq(s.Cap, Zero), Eq(s.Off, Zero))))
	case *types.Interface:
		i := v.(IfaceV)
		out = append(out, Le(Zero, i.Tag), Implies(Eq(i.Tag, Zero), Eq(i.Val, Zero)))
	case *types.Struct:
		sv := v.(StructV)
		for i := 0; i < u.NumFields(); i++ {
			out = append(out, typeInv(u.Field(i).Type(), sv.F[i], frontier)...)
		}
	case *types.Tuple:
		tv := v.(TupleV)
		for i := 0; i < u.Len(); i++ {
			out = append(out, typeInv(u.At(i).Type(), tv.V[i], frontier)...)
		}
	}
	return out
}

// ---------- strings ----------

var strLits = map[string]*Term{}
var strLitOf = map[*Term]string{}

func StrLit(s string) *Term {
	if t, ok := strLits[s]; ok {
		return t
	}
	t := Var(fmt.Sprintf("strlit!%d", len(strLits)), SStr)
	strLits[s] = t
	strLitOf[t] = s
	return t
}

func SLen(s *Term) *Term {
	if lit, ok := strLitOf[s]; ok {
		return IntLit(int64(len(lit)))
	}
	return UF("slen", SInt, s)
}

func SAt(s, i *Term) *Term {
	if lit, ok := strLitOf[s]; ok && i.IsInt() && i.Int.IsInt64() && i.Int.Int64() >= 0 && i.Int.Int64() < int64(len(lit)) {
		return IntLit(int64(lit[i.Int.Int64()]))
	}
	return UF("sat", SInt, s, i)
}

// strFacts: facts about a string term that hold always (instantiated lazily at use sites).
func strFacts(s *Term) []*Term {
	if _, ok := strLitOf[s]; ok {
		return nil
	}
	l := SLen(s)
	return []*Term{Le(Zero, l), Le(l, BigLit(pow2(48))), Eq(Eq(l, Zero), Eq(s, StrLit("")))}
}

// litFacts axiomatises a literal: its characters (length is folded by SLen).
func litFacts(t *Term) []*Term {
	s := strLitOf[t]
	var out []*Term
	for i := 0; i < len(s) && i < 64; i++ {
		out = append(out, Eq(UF("sat", SInt, t, IntLit(int64(i))), IntLit(int64(s[i]))))
	}
	out = append(out, Eq(UF("slen", SInt, t), IntLit(int64(len(s)))))
	return out
}
