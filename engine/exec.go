package main

import (
	"os"
	"fmt"
	"go/ast"
	"go/token"
	"go/types"
	"sort"
	"strings"

	"golang.org/x/tools/go/ssa"
)

type Exec struct {
	inSpecCall bool // applying a contract inside a specification expression
	P          *Program
	Specs      *Specs
	Obls       []*Obligation
	Paths      int
	PathLimit  int
	StepLimit  int
	Steps      int
	TopName    string
	TopSpec    *FuncSpec
	Abstracted map[string]int
	Used       map[string]bool // contracts relied upon (callee names)
	Assumed    map[string]bool // extern/trusted contracts relied upon
	ToolLimit  []string
	MaxInline  int
	cellSeq    int
	loopInfo   map[*ssa.Function]*funcLoops
	pure       *pureCollector
	noObl      bool
	oblSeq     map[string]int
	Epoch      int
	labelMemo  map[token.Pos]string
	Returns    int
	specEq     bool
	curCallArgs []Value
	curCallRecv Value
	curCallTypes []types.Type
	ReplayArgs []TV
	ReplayLen  []bool
	ReplayFn   string
	ReplayPkg  *types.Package
}

type pureCollector struct {
	base    *PC
	results []pureResult
}

type pureResult struct {
	cond  *Term
	val   Value
	facts []*Term
}

func NewExec(p *Program, sp *Specs) *Exec {
	return &Exec{P: p, Specs: sp, PathLimit: 6000, StepLimit: 3000000, Abstracted: map[string]int{}, Used: map[string]bool{}, Assumed: map[string]bool{},
		MaxInline: 4, loopInfo: map[*ssa.Function]*funcLoops{}, oblSeq: map[string]int{}, labelMemo: map[token.Pos]string{}}
}

func (ex *Exec) note(s string) { ex.Abstracted[s]++ }

func (ex *Exec) limit(s string) {
	for _, x := range ex.ToolLimit {
		if x == s {
			return
		}
	}
	ex.ToolLimit = append(ex.ToolLimit, s)
}

// ---------- names ----------

func shortPkg(p *types.Package) string {
	if p == nil {
		return ""
	}
	return p.Name()
}

// specName is the contract key of an SSA function: pkg.Func, pkg.Recv.Method, pkg.Outer$1.
func specName(fn *ssa.Function) string {
	if fn == nil {
		return "?"
	}
	if fn.Parent() != nil {
		idx := 0
		for i, a := range fn.Parent().AnonFuncs {
			if a == fn {
				idx = i + 1
			}
		}
		return fmt.Sprintf("%s$%d", specName(fn.Parent()), idx)
	}
	pk := ""
	if fn.Pkg != nil {
		pk = fn.Pkg.Pkg.Name()
	} else if fn.Object() != nil && fn.Object().Pkg() != nil {
		pk = fn.Object().Pkg().Name()
	}
	if fn.Signature.Recv() != nil {
		rt := fn.Signature.Recv().Type()
		if p, ok := rt.(*types.Pointer); ok {
			rt = p.Elem()
		}
		rn := typeName(rt)
		if i := strings.Index(rn, "."); i >= 0 {
			// typeName already carries the package
			return rn + "." + fn.Name()
		}
		return pk + "." + rn + "." + fn.Name()
	}
	return pk + "." + fn.Name()
}

func (ex *Exec) inRepo(fn *ssa.Function) bool {
	if fn == nil {
		return false
	}
	var pk *types.Package
	if fn.Pkg != nil {
		pk = fn.Pkg.Pkg
	} else if fn.Parent() != nil {
		return ex.inRepo(fn.Parent())
	} else if fn.Object() != nil {
		pk = fn.Object().Pkg()
	}
	return pk != nil && (pk.Path() == ex.P.ModPath || strings.HasPrefix(pk.Path(), ex.P.ModPath+"/"))
}

// ---------- obligations ----------

func (ex *Exec) emit(st *State, kind, label string, goal *Term, pos token.Pos, props []string) {
	if ex.noObl || ex.pure != nil {
		return
	}
	if goal.IsTrue() {
		// trivially discharged obligations are still counted
		ex.Obls = append(ex.Obls, &Obligation{Name: ex.TopName + "#" + kind + ":" + label, Kind: kind, Func: ex.TopName, Pos: posString(ex.P.SSA.Fset, pos), Props: props,
			Res: &SolveResult{Status: "unsat", Solver: "simplifier"}})
		return
	}
	name := ex.TopName + "#" + kind + ":" + label
	ex.oblSeq[name]++
	o := &Obligation{Name: name, Kind: kind, Func: ex.TopName, Pos: posString(ex.P.SSA.Fset, pos), Props: props, Inst: ex.oblSeq[name],
		Q: &Query{Assumes: st.PC.list(), Goal: goal, Cheap: kind == "nil" || kind == "lock" || kind == "immutable"}, Trace: append([]string{}, st.Trace...)}
	o.ReplayArgs, o.ReplayFn, o.ReplayPkg, o.ReplayLen = ex.ReplayArgs, ex.ReplayFn, ex.ReplayPkg, ex.ReplayLen
	ex.Obls = append(ex.Obls, o)
}

// srcLabel prints the innermost interesting source expression at pos.
func (ex *Exec) srcLabel(fn *ssa.Function, pos token.Pos, want string) string {
	if !pos.IsValid() {
		return want
	}
	if l, ok := ex.labelMemo[pos]; ok {
		return want + "[" + l + "]"
	}
	fset := ex.P.SSA.Fset
	file := fset.File(pos)
	if file == nil {
		return want
	}
	var af *ast.File
	for _, pk := range ex.P.Pkgs {
		for _, f := range pk.Syntax {
			if fset.File(f.Pos()) == file {
				af = f
			}
		}
	}
	if af == nil {
		return want
	}
	var best ast.Node
	ast.Inspect(af, func(n ast.Node) bool {
		if n == nil {
			return false
		}
		if n.Pos() <= pos && pos < n.End() {
			switch n.(type) {
			case *ast.IndexExpr, *ast.SliceExpr, *ast.TypeAssertExpr, *ast.CallExpr, *ast.BinaryExpr, *ast.SelectorExpr, *ast.StarExpr, *ast.UnaryExpr, *ast.RangeStmt, *ast.IncDecStmt, *ast.AssignStmt, *ast.CompositeLit:
				best = n
			}
			return true
		}
		return false
	})
	if best == nil {
		return want
	}
	start, end := fset.Position(best.Pos()).Offset, fset.Position(best.End()).Offset
	src := ex.P.source(file.Name())
	if src == nil || end > len(src) || start > end {
		return want
	}
	txt := strings.Join(strings.Fields(string(src[start:end])), " ")
	if len(txt) > 60 {
		txt = txt[:60] + "…"
	}
	ex.labelMemo[pos] = txt
	return want + "[" + txt + "]"
}

// ---------- frames ----------

func (ex *Exec) pushFrame(st *State, fn *ssa.Function, args []Value, retTo ssa.Value, depth int) *Frame {
	fr := &Frame{Fn: fn, Regs: map[ssa.Value]Value{}, Cells: map[*ssa.Alloc]*Cell{}, Depth: depth, RetTo: retTo, LoopIn: map[*ssa.BasicBlock]*loopEntry{}, Params: map[string]Value{}}
	for i, p := range fn.Params {
		if i < len(args) {
			fr.Regs[p] = args[i]
			fr.Params[p.Name()] = args[i]
		}
	}
	fr.Block = fn.Blocks[0]
	st.Frames = append(st.Frames, fr)
	return fr
}

func (ex *Exec) onStack(st *State, fn *ssa.Function) bool {
	for _, f := range st.Frames {
		if f.Fn == fn {
			return true
		}
	}
	return false
}

// ---------- value lookup ----------

func (ex *Exec) val(st *State, fr *Frame, v ssa.Value) Value {
	switch x := v.(type) {
	case *ssa.Const:
		return ex.constVal(x)
	case *ssa.Function:
		return FuncV{x}
	case *ssa.Global:
		return ex.globalPtr(x)
	case *ssa.Builtin:
		return Scalar{Zero}
	case *ssa.FreeVar:
		if r, ok := fr.Regs[v]; ok {
			return r
		}
	}
	if r, ok := fr.Regs[v]; ok {
		return r
	}
	panic(fmt.Sprintf("no value for %s (%T) in %s", v.Name(), v, fr.Fn))
}

func (ex *Exec) globalPtr(g *ssa.Global) *PtrV {
	t := g.Type().(*types.Pointer).Elem()
	name := "G:" + shortPkg(g.Pkg.Pkg) + "." + g.Name()
	cls := name
	if !isStructT(t) {
		cls = name
	}
	return &PtrV{Root: RObj, Ref: Zero, Class: cls, RT: t, Elem: t}
}

func (ex *Exec) constVal(c *ssa.Const) Value {
	t := c.Type()
	if c.Value == nil {
		return zeroValue(t)
	}
	switch u := under(t).(type) {
	case *types.Basic:
		switch {
		case u.Info()&types.IsBoolean != 0:
			return Scalar{BoolLit(constantBool(c))}
		case u.Info()&types.IsString != 0:
			return Scalar{StrLit(constantString(c))}
		case u.Info()&types.IsInteger != 0:
			return Scalar{BigLit(constantBig(c))}
		default:
			// floats/complex: opaque but deterministic
			return Scalar{UF("fconst:"+c.Value.ExactString(), SInt)}
		}
	}
	return zeroValue(t)
}

// ---------- running ----------

func (ex *Exec) run(st0 *State) {
	work := []*State{st0}
	for len(work) > 0 {
		st := work[len(work)-1]
		work = work[:len(work)-1]
		ex.Paths++
		if ex.Paths > ex.PathLimit {
			ex.limit(fmt.Sprintf("%s: path limit %d exceeded", ex.TopName, ex.PathLimit))
			return
		}
		ex.runPath(st, &work)
		if ex.Steps > ex.StepLimit {
			ex.limit(fmt.Sprintf("%s: step limit exceeded", ex.TopName))
			return
		}
	}
}

func (ex *Exec) gotoBlock(st *State, fr *Frame, target *ssa.BasicBlock) {
	fr.Prev = fr.Block
	fr.Block = target
	fr.Idx = 0
}

func (ex *Exec) runPath(st *State, work *[]*State) {
	defer func() {
		if r := recover(); r != nil {
			if te, ok := r.(toolErr); ok {
				ex.limit(fmt.Sprintf("%s: %s", ex.TopName, string(te)))
				st.Dead = true
				return
			}
			panic(r)
		}
	}()
	for !st.Dead && len(st.Frames) > 0 {
		fr := st.top()
		if fr.Idx == 0 {
			if ex.atBlockEntry(st, fr) {
				continue
			}
			if st.Dead {
				return
			}
		}
		if fr.Idx >= len(fr.Block.Instrs) {
			panic(toolErr("fell off block"))
		}
		in := fr.Block.Instrs[fr.Idx]
		fr.Idx++
		ex.Steps++
		if ex.Steps > ex.StepLimit {
			return
		}
		ex.step(st, fr, in, work)
	}
}

type toolErr string

func tool(format string, a ...interface{}) { panic(toolErr(fmt.Sprintf(format, a...))) }

func (ex *Exec) step(st *State, fr *Frame, in ssa.Instruction, work *[]*State) {
	switch x := in.(type) {
	case *ssa.DebugRef:
		return
	case *ssa.Alloc:
		ex.doAlloc(st, fr, x)
	case *ssa.Store:
		p := ex.asPtr(st, fr, x.Addr)
		ex.checkDeref(st, fr, p, x.Pos(), "store")
		ex.store(st, p, ex.val(st, fr, x.Val), x.Pos())
	case *ssa.UnOp:
		ex.doUnOp(st, fr, x)
	case *ssa.BinOp:
		// the hidden index of a range loop: index+1 cannot overflow (it is bounded by a length)
		if x.Op == token.ADD {
			if ld, ok := x.X.(*ssa.UnOp); ok && ld.Op == token.MUL {
				if al, ok := ld.X.(*ssa.Alloc); ok && al.Comment == "rangeindex" {
					if c, ok := x.Y.(*ssa.Const); ok && c.Value != nil && c.Int64() == 1 {
						fr.Regs[x] = Scalar{Add(ex.val(st, fr, x.X).(Scalar).T, One)}
						return
					}
				}
			}
		}
		fr.Regs[x] = ex.binop(st, fr, x.Op, ex.val(st, fr, x.X), ex.val(st, fr, x.Y), x.X.Type(), x.Type(), x.Pos())
	case *ssa.FieldAddr:
		p := ex.asPtr(st, fr, x.X)
		ex.checkDeref(st, fr, p, x.Pos(), "field")
		fr.Regs[x] = ex.fieldAddr(st, p, x.Field)
	case *ssa.Field:
		sv := ex.val(st, fr, x.X).(StructV)
		fr.Regs[x] = sv.F[x.Field]
	case *ssa.IndexAddr:
		ex.doIndexAddr(st, fr, x)
	case *ssa.Index:
		ex.doIndex(st, fr, x)
	case *ssa.Slice:
		ex.doSlice(st, fr, x)
	case *ssa.Convert:
		fr.Regs[x] = ex.convert(st, ex.val(st, fr, x.X), x.X.Type(), x.Type())
	case *ssa.ChangeType:
		fr.Regs[x] = ex.retag(ex.val(st, fr, x.X), x.Type())
	case *ssa.ChangeInterface:
		fr.Regs[x] = ex.val(st, fr, x.X)
	case *ssa.MakeInterface:
		fr.Regs[x] = ex.makeIface(st, ex.val(st, fr, x.X), x.X.Type())
	case *ssa.TypeAssert:
		ex.doTypeAssert(st, fr, x)
	case *ssa.Extract:
		tv := ex.val(st, fr, x.Tuple).(TupleV)
		fr.Regs[x] = tv.V[x.Index]
	case *ssa.Phi:
		for i, p := range fr.Block.Preds {
			if p == fr.Prev {
				fr.Regs[x] = ex.val(st, fr, x.Edges[i])
				return
			}
		}
		tool("phi without matching predecessor")
	case *ssa.MakeSlice:
		ex.doMakeSlice(st, fr, x)
	case *ssa.MakeMap:
		ref := ex.alloc(st)
		fr.Regs[x] = Scalar{ref}
		ex.initMap(st, x.Type(), ref)
	case *ssa.MakeChan:
		fr.Regs[x] = Scalar{ex.alloc(st)}
	case *ssa.MakeClosure:
		closureSeq++
		c := &ClosureV{Fn: x.Fn.(*ssa.Function), ID: closureSeq}
		for _, b := range x.Bindings {
			c.Bind = append(c.Bind, ex.val(st, fr, b))
		}
		closureTable[c.ID] = c
		fr.Regs[x] = c
		// facts the closure's contract states about its captured variables must hold here
		if csp := ex.Specs.Funcs[specName(c.Fn)]; csp != nil && len(csp.Captures) > 0 && ex.pure == nil {
			env := &SpecEnv{ex: ex, st: st, vars: map[string]TV{}, fn: c.Fn, pkg: pkgOfFn(c.Fn)}
			for i, fv := range c.Fn.FreeVars {
				if i < len(c.Bind) {
					if p, ok := c.Bind[i].(*PtrV); ok {
						env.vars[fv.Name()] = TV{ex.load(st, p), p.Elem}
					}
				}
			}
			for i, cl := range csp.Captures {
				ex.emit(st, "pre", fmt.Sprintf("captures:%s:%s@%s", csp.Name, clauseLabel(cl, i), specName(fr.Fn)), ex.evalBool(env, cl.Expr), x.Pos(), mergeProps(csp.Props, cl.Props))
			}
		}
	case *ssa.Lookup:
		ex.doLookup(st, fr, x)
	case *ssa.MapUpdate:
		ex.doMapUpdate(st, fr, x)
	case *ssa.Range:
		fr.Regs[x] = ex.val(st, fr, x.X)
	case *ssa.Next:
		ex.doNext(st, fr, x)
	case *ssa.Call:
		ex.doCall(st, fr, &x.Call, x, x.Pos(), work)
	case *ssa.Defer:
		d := deferred{call: &x.Call, pos: x.Pos()}
		if !x.Call.IsInvoke() {
			d.fn = ex.val(st, fr, x.Call.Value)
		} else {
			d.fn = ex.val(st, fr, x.Call.Value)
		}
		for _, a := range x.Call.Args {
			d.args = append(d.args, ex.val(st, fr, a))
		}
		fr.Defers = append(fr.Defers, d)
	case *ssa.RunDefers:
		ex.runDefers(st, fr, work)
	case *ssa.Go:
		ex.doGo(st, fr, x)
	case *ssa.Send:
		ex.note("chan send in " + specName(fr.Fn))
		if ci, cet := ex.chanInvOf(x.Chan); ci != nil {
			ex.emit(st, "pre", ex.srcLabel(fr.Fn, x.Pos(), "chan-send"), ex.chanValueFact(st, fr, ci, ex.val(st, fr, x.X), cet), x.Pos(), nil)
		}
	case *ssa.Select:
		ex.doSelect(st, fr, x)
	case *ssa.If:
		c := ex.val(st, fr, x.Cond).(Scalar).T
		t, f := fr.Block.Succs[0], fr.Block.Succs[1]
		if c.IsTrue() {
			ex.gotoBlock(st, fr, t)
			return
		}
		if c.IsFalse() {
			ex.gotoBlock(st, fr, f)
			return
		}
		s2 := st.clone()
		if ps := posString(ex.P.SSA.Fset, x.Cond.Pos()); ps != "" {
			st.Trace = append(st.Trace, ps+":T")
			s2.Trace = append(s2.Trace, ps+":F")
		} else {
			tag := fmt.Sprintf("%s.b%d", fr.Fn.Name(), fr.Block.Index)
			if ta, ok := x.Cond.(*ssa.Extract); ok {
				if a, ok := ta.Tuple.(*ssa.TypeAssert); ok {
					tag = "is(" + typeName(a.AssertedType) + ")"
				}
			}
			st.Trace = append(st.Trace, tag+":T")
			s2.Trace = append(s2.Trace, tag+":F")
		}
		st.assumeBranch(c)
		ex.gotoBlock(st, fr, t)
		s2.assumeBranch(Not(c))
		ex.gotoBlock(s2, s2.top(), f)
		*work = append(*work, s2)
	case *ssa.Jump:
		ex.gotoBlock(st, fr, fr.Block.Succs[0])
	case *ssa.Return:
		ex.doReturn(st, fr, x, work)
	case *ssa.Panic:
		ex.emit(st, "safety", ex.srcLabel(fr.Fn, x.Pos(), "panic"), False, x.Pos(), []string{"C17"})
		st.Dead = true
	default:
		tool("unsupported instruction %T in %s", in, specName(fr.Fn))
	}
}

// ---------- allocation ----------

func (ex *Exec) alloc(st *State) *Term {
	ref := Add(st.Frontier, One)
	if !st.Frontier.IsInt() {
		r := Fresh("alloc", SInt)
		st.assume(Eq(r, ref))
		ref = r
	}
	st.Frontier = ref
	st.Fresh[ref] = true
	return ref
}

func (ex *Exec) doAlloc(st *State, fr *Frame, a *ssa.Alloc) {
	t := a.Type().(*types.Pointer).Elem()
	if !a.Heap {
		ex.cellSeq++
		c := &Cell{ID: ex.cellSeq, Name: a.Comment, Typ: t}
		fr.Cells[a] = c
		st.Locals[c] = zeroValue(t)
		fr.Regs[a] = &PtrV{Root: RLocal, Cell: c, Elem: t}
		return
	}
	ref := ex.alloc(st)
	p := objPtr(ref, t)
	fr.Regs[a] = p
	ex.storeObj(st, ref, p.Class, t, zeroValue(t))
	if a.Comment != "" && !strings.HasPrefix(a.Comment, "complit") && !strings.HasPrefix(a.Comment, "varargs") && !strings.HasPrefix(a.Comment, "slicelit") && !strings.HasPrefix(a.Comment, "new") && !strings.HasPrefix(a.Comment, "makeslice") {
		// a named local that lives on the heap because a closure captures it or its address is taken
		st.LocalCells = append(st.LocalCells, localCell{ref, p.Class})
	}
}

// ---------- pointers, loads, stores ----------

func (ex *Exec) asPtr(st *State, fr *Frame, v ssa.Value) *PtrV {
	x := ex.val(st, fr, v)
	switch p := x.(type) {
	case *PtrV:
		return p
	case Scalar:
		return objPtr(p.T, v.Type().(*types.Pointer).Elem())
	}
	tool("not a pointer: %T", x)
	return nil
}

func (ex *Exec) checkDeref(st *State, fr *Frame, p *PtrV, pos token.Pos, what string) {
	if p.Root != RObj || len(p.Path) != 0 {
		return
	}
	if p.Ref.IsInt() && p.Ref.Int.Sign() != 0 {
		return
	}
	if strings.HasPrefix(p.Class, "G:") {
		return
	}
	if p.Ref.Op == "uf" && (strings.HasPrefix(p.Ref.Name, "fld:") || strings.HasPrefix(p.Ref.Name, "elemref:")) {
		return
	}
	if st.Fresh[p.Ref] {
		return
	}
	ex.emit(st, "nil", ex.srcLabel(fr.Fn, pos, what), Neq(p.Ref, Zero), pos, []string{"C17"})
	st.assume(Neq(p.Ref, Zero))
}

func fieldName(t types.Type, i int) string {
	return under(t).(*types.Struct).Field(i).Name()
}

func fieldType(t types.Type, i int) types.Type {
	return under(t).(*types.Struct).Field(i).Type()
}

func fldRef(class string, fname string, ref *Term) *Term {
	return UF("fld:"+class+"."+fname, SInt, ref)
}

func (ex *Exec) fieldAddr(st *State, p *PtrV, field int) *PtrV {
	ft := fieldType(p.Elem, field)
	switch p.Root {
	case RLocal:
		np := *p
		np.Path = append(append([]PathElem{}, p.Path...), PathElem{Field: field})
		np.Elem = ft
		return &np
	case RObj:
		if len(p.Path) != 0 {
			tool("field of interior pointer")
		}
		if isStructT(ft) {
			r := fldRef(p.Class, fieldName(p.Elem, field), p.Ref)
			st.assume(Lt(r, Zero))
			return objPtr(r, ft)
		}
		np := *p
		np.Path = []PathElem{{Field: field}}
		np.Elem = ft
		return &np
	}
	tool("fieldAddr on slice element root")
	return nil
}

func (ex *Exec) localGet(v Value, path []PathElem, t types.Type) Value {
	for _, e := range path {
		if e.Field >= 0 {
			v = v.(StructV).F[e.Field]
			t = fieldType(t, e.Field)
		} else {
			av := v.(ArrayV)
			et := under(t).(*types.Array).Elem()
			var cs []*Term
			for _, c := range av.Comps {
				cs = append(cs, Select(c, e.Index))
			}
			v, _ = unflatten(et, cs)
			t = et
		}
	}
	return v
}

func (ex *Exec) localSet(v Value, path []PathElem, t types.Type, nv Value) Value {
	if len(path) == 0 {
		return nv
	}
	e := path[0]
	if e.Field >= 0 {
		sv := v.(StructV)
		nf := append([]Value{}, sv.F...)
		nf[e.Field] = ex.localSet(sv.F[e.Field], path[1:], fieldType(t, e.Field), nv)
		return StructV{nf}
	}
	av := v.(ArrayV)
	et := under(t).(*types.Array).Elem()
	var cs []*Term
	for _, c := range av.Comps {
		cs = append(cs, Select(c, e.Index))
	}
	ev, _ := unflatten(et, cs)
	ev = ex.localSet(ev, path[1:], et, nv)
	fl := flatten(ev)
	nc := make([]*Term, len(av.Comps))
	for i := range av.Comps {
		nc[i] = Store(av.Comps[i], e.Index, fl[i])
	}
	return ArrayV{Comps: nc, N: av.N}
}

// loadObj reads a whole object of type t rooted at ref.
func (ex *Exec) loadObj(st *State, ref *Term, class string, t types.Type) Value {
	if s, ok := under(t).(*types.Struct); ok {
		sv := StructV{}
		for i := 0; i < s.NumFields(); i++ {
			ft := s.Field(i).Type()
			if isStructT(ft) {
				sv.F = append(sv.F, ex.loadObj(st, fldRef(class, s.Field(i).Name(), ref), classOf(ft), ft))
			} else {
				sv.F = append(sv.F, ex.loadComps(st, class+"."+s.Field(i).Name(), ft, ref))
			}
		}
		return sv
	}
	return ex.loadComps(st, class, t, ref)
}

func (ex *Exec) loadComps(st *State, class string, t types.Type, ref *Term) Value {
	cs := comps(t)
	ts := make([]*Term, len(cs))
	for i, c := range cs {
		ts[i] = Select(st.heapGet(class+c.Suffix, heapSort(1, c.Sort)), ref)
	}
	v, _ := unflatten(t, ts)
	return v
}

func (ex *Exec) storeComps(st *State, class string, t types.Type, ref *Term, v Value) {
	cs := comps(t)
	fl := flatten(v)
	for i, c := range cs {
		h := st.heapGet(class+c.Suffix, heapSort(1, c.Sort))
		st.heapSet(class+c.Suffix, Store(h, ref, fl[i]))
	}
}

func (ex *Exec) storeObj(st *State, ref *Term, class string, t types.Type, v Value) {
	if s, ok := under(t).(*types.Struct); ok {
		sv := v.(StructV)
		for i := 0; i < s.NumFields(); i++ {
			ft := s.Field(i).Type()
			if isStructT(ft) {
				ex.storeObj(st, fldRef(class, s.Field(i).Name(), ref), classOf(ft), ft, sv.F[i])
			} else {
				ex.storeComps(st, class+"."+s.Field(i).Name(), ft, ref, sv.F[i])
			}
		}
		return
	}
	ex.storeComps(st, class, t, ref, v)
}

func (ex *Exec) load(st *State, p *PtrV) Value {
	if v, ok := romLoad(st, p); ok {
		return v
	}
	switch p.Root {
	case RLocal:
		v, ok := st.Locals[p.Cell]
		if !ok {
			tool("load of dead local %s", p.Cell)
		}
		return ex.localGet(v, p.Path, p.Cell.Typ)
	case RObj:
		if len(p.Path) == 0 {
			v := ex.loadObj(st, p.Ref, p.Class, p.Elem)
			ex.assumeInv(st, p.Elem, v)
			return v
		}
		e := p.Path[0]
		if e.Field >= 0 {
			ft := fieldType(p.RT, e.Field)
			class := p.Class + "." + fieldName(p.RT, e.Field)
			if len(p.Path) == 1 {
				v := ex.loadComps(st, class, ft, p.Ref)
				ex.assumeInv(st, ft, v)
				return v
			}
			// field then index into an array-typed field
			at := under(ft).(*types.Array)
			return ex.loadArrElem(st, class, ft, at.Elem(), p.Ref, p.Path[1].Index)
		}
		at := under(p.RT).(*types.Array)
		return ex.loadArrElem(st, p.Class, p.RT, at.Elem(), p.Ref, e.Index)
	case RElem:
		cs := comps(p.Elem)
		ts := make([]*Term, len(cs))
		cls := "[]" + typeName(p.Elem)
		for i, c := range cs {
			ts[i] = Select(Select(st.heapGet(cls+c.Suffix, heapSort(2, c.Sort)), p.Arr), p.Idx)
		}
		v, _ := unflatten(p.Elem, ts)
		ex.assumeInv(st, p.Elem, v)
		return v
	}
	tool("load")
	return nil
}

func (ex *Exec) loadArrElem(st *State, class string, arrT, elemT types.Type, ref, idx *Term) Value {
	cs := comps(arrT)
	ts := make([]*Term, len(cs))
	for i, c := range cs {
		ts[i] = Select(Select(st.heapGet(class+c.Suffix, heapSort(1, c.Sort)), ref), idx)
	}
	v, _ := unflatten(elemT, ts)
	ex.assumeInv(st, elemT, v)
	return v
}

func (ex *Exec) storeArrElem(st *State, class string, arrT types.Type, ref, idx *Term, v Value) {
	cs := comps(arrT)
	fl := flatten(v)
	for i, c := range cs {
		h := st.heapGet(class+c.Suffix, heapSort(1, c.Sort))
		st.heapSet(class+c.Suffix, Store(h, ref, Store(Select(h, ref), idx, fl[i])))
	}
}

func (ex *Exec) assumeInv(st *State, t types.Type, v Value) {
	for _, f := range typeInv(t, v, st.Frontier) {
		if mentionsBound(f) {
			continue // a value read under a specification quantifier: no fact about one instance of the bound variable
		}
		st.assume(f)
	}
}

func (ex *Exec) store(st *State, p *PtrV, v Value, pos token.Pos) {
	if _, isROM := romLoad(st, p); isROM {
		ex.emit(st, "immutable", "write to read-only package table", False, pos, nil)
		return
	}
	switch p.Root {
	case RLocal:
		old := st.Locals[p.Cell]
		st.Locals[p.Cell] = ex.localSet(old, p.Path, p.Cell.Typ, v)
	case RObj:
		ex.checkFrame(st, p, pos)
		if len(p.Path) == 0 {
			ex.storeObj(st, p.Ref, p.Class, p.Elem, v)
			return
		}
		e := p.Path[0]
		if e.Field >= 0 {
			ft := fieldType(p.RT, e.Field)
			class := p.Class + "." + fieldName(p.RT, e.Field)
			if len(p.Path) == 1 {
				ex.storeComps(st, class, ft, p.Ref, v)
				return
			}
			ex.storeArrElem(st, class, ft, p.Ref, p.Path[1].Index, v)
			return
		}
		ex.storeArrElem(st, p.Class, p.RT, p.Ref, e.Index, v)
	case RElem:
		cs := comps(p.Elem)
		fl := flatten(v)
		cls := "[]" + typeName(p.Elem)
		ex.checkFrameElem(st, p, pos)
		for i, c := range cs {
			h := st.heapGet(cls+c.Suffix, heapSort(2, c.Sort))
			st.heapSet(cls+c.Suffix, Store(h, p.Arr, Store(Select(h, p.Arr), p.Idx, fl[i])))
		}
	}
}

// ---------- return ----------

func (ex *Exec) doReturn(st *State, fr *Frame, r *ssa.Return, work *[]*State) {
	var res Value
	switch len(r.Results) {
	case 0:
		res = TupleV{}
	case 1:
		res = ex.val(st, fr, r.Results[0])
	default:
		tv := TupleV{}
		for _, x := range r.Results {
			tv.V = append(tv.V, ex.val(st, fr, x))
		}
		res = tv
	}
	ex.finishFrame(st, fr, res, work)
}

func (ex *Exec) finishFrame(st *State, fr *Frame, res Value, work *[]*State) {
	// local cells of the frame die
	for _, c := range fr.Cells {
		delete(st.Locals, c)
	}
	st.Frames = st.Frames[:len(st.Frames)-1]
	if fr.OnRet != nil {
		fr.OnRet(st, fr, res)
		return
	}
	if len(st.Frames) == 0 {
		if ex.pure != nil {
			var conds, facts []*Term
			for c := st.PC; c != nil && c != ex.pure.base; c = c.Prev {
				if c.Branch {
					conds = append(conds, c.T)
				} else {
					facts = append(facts, c.T)
				}
			}
			ex.pure.results = append(ex.pure.results, pureResult{And(conds...), res, facts})
			st.Dead = true
			return
		}
		ex.Returns++
		if os.Getenv("VCGO_TRACE") != "" {
			fmt.Fprintln(os.Stderr, "RETURN", ex.TopName, strings.Join(st.Trace, " "))
		}
		ex.checkPost(st, fr, res)
		st.Dead = true
		return
	}
	caller := st.top()
	if fr.InDefer {
		// resume running the caller's remaining defers
		ex.runDefers(st, caller, work)
		return
	}
	if fr.RetTo != nil {
		caller.Regs[fr.RetTo] = res
	}
}

func (ex *Exec) runDefers(st *State, fr *Frame, work *[]*State) {
	for len(fr.Defers) > 0 {
		d := fr.Defers[len(fr.Defers)-1]
		fr.Defers = fr.Defers[:len(fr.Defers)-1]
		pushed := ex.callValue(st, fr, d.call, d.fn, d.args, nil, d.pos, true, work)
		if pushed || st.Dead {
			return // continue after the deferred frame returns (finishFrame resumes)
		}
	}
}

// ---------- loops ----------

type loopDesc struct {
	Head   *ssa.BasicBlock
	Blocks map[*ssa.BasicBlock]bool
	Ord    int
}

type funcLoops struct {
	ByHead map[*ssa.BasicBlock]*loopDesc
	Err    string
}

func (ex *Exec) loopsOf(fn *ssa.Function) *funcLoops {
	if fl, ok := ex.loopInfo[fn]; ok {
		return fl
	}
	fl := &funcLoops{ByHead: map[*ssa.BasicBlock]*loopDesc{}}
	ex.loopInfo[fn] = fl
	for _, b := range fn.Blocks {
		for _, s := range b.Succs {
			if s.Dominates(b) {
				ld := fl.ByHead[s]
				if ld == nil {
					ld = &loopDesc{Head: s, Blocks: map[*ssa.BasicBlock]bool{s: true}}
					fl.ByHead[s] = ld
				}
				// natural loop: nodes reaching b without passing through s
				stack := []*ssa.BasicBlock{b}
				for len(stack) > 0 {
					n := stack[len(stack)-1]
					stack = stack[:len(stack)-1]
					if ld.Blocks[n] {
						continue
					}
					ld.Blocks[n] = true
					stack = append(stack, n.Preds...)
				}
			}
		}
	}
	var heads []*ssa.BasicBlock
	for h := range fl.ByHead {
		heads = append(heads, h)
	}
	sort.Slice(heads, func(i, j int) bool { return heads[i].Index < heads[j].Index })
	for i, h := range heads {
		fl.ByHead[h].Ord = i + 1
	}
	// ordinals are those of the loop *statements* in source order. A loop statement that never
	// iterates (every path through its body leaves it) has no SSA loop head; therefore each head is
	// matched to the innermost for/range statement that contains all source positions of its blocks.
	if syn := fn.Syntax(); syn != nil {
		var body ast.Node
		switch d := syn.(type) {
		case *ast.FuncDecl:
			body = d.Body
		case *ast.FuncLit:
			body = d.Body
		}
		if body != nil {
			var loops []ast.Node
			ast.Inspect(body, func(x ast.Node) bool {
				switch x.(type) {
				case *ast.FuncLit:
					return false
				case *ast.ForStmt, *ast.RangeStmt:
					loops = append(loops, x)
				}
				return true
			})
			used := map[int]bool{}
			for _, h := range heads {
				ld := fl.ByHead[h]
				lo, hi := token.NoPos, token.NoPos
				for b := range ld.Blocks {
					for _, in := range b.Instrs {
						if p := in.Pos(); p.IsValid() {
							if !lo.IsValid() || p < lo {
								lo = p
							}
							if !hi.IsValid() || p > hi {
								hi = p
							}
						}
					}
				}
				best := -1
				for i, l := range loops {
					if lo.IsValid() && l.Pos() <= lo && hi < l.End() {
						if best < 0 || (loops[best].End()-loops[best].Pos()) > (l.End()-l.Pos()) {
							best = i
						}
					}
				}
				if best < 0 || used[best] {
					fl.Err = fmt.Sprintf("cannot match SSA loop head b%d to a loop statement", h.Index)
					continue
				}
				used[best] = true
				ld.Ord = best + 1
			}
		}
	}
	return fl
}

// atBlockEntry handles loop heads. Returns true when the path state changed block.
func (ex *Exec) atBlockEntry(st *State, fr *Frame) bool {
	fl := ex.loopsOf(fr.Fn)
	ld := fl.ByHead[fr.Block]
	if ld == nil {
		return false
	}
	key := fmt.Sprintf("%s#%d", specName(fr.Fn), ld.Ord)
	ls := ex.Specs.Loops[key]
	if ls != nil && fl.Err != "" {
		tool("loop ordinal mismatch in %s: %s", specName(fr.Fn), fl.Err)
	}
	fromInside := fr.Prev != nil && ld.Blocks[fr.Prev]
	props := []string{}
	if ls != nil {
		props = ls.Props
	}
	auto := ex.autoInvariants(st, fr, ld)
	if !fromInside {
		// entry: establish, havoc, assume
		if ls != nil {
			env := ex.loopEnv(st, fr)
			for i, c := range ls.Invariants {
				t := ex.evalBool(env, c.Expr)
				ex.emit(st, "inv-entry", fmt.Sprintf("%s:%s", key, clauseLabel(c, i)), t, fr.Block.Instrs[0].Pos(), mergeProps(props, c.Props))
			}
		}
		for i, a := range auto {
			ex.emit(st, "inv-entry", fmt.Sprintf("%s:auto%d", key, i), a(st), token.NoPos, nil)
		}
		ex.havocLoop(st, fr, ld)
		le := &loopEntry{Spec: ls}
		if ls != nil {
			env := ex.loopEnv(st, fr)
			for _, c := range ls.Invariants {
				st.assume(ex.evalBool(env, c.Expr))
			}
			for _, d := range ls.Decreases {
				le.Measure = append(le.Measure, ex.evalInt(env, d))
			}
		}
		for _, a := range auto {
			st.assume(a(st))
		}
		fr.LoopIn[fr.Block] = le
		fr.Idx = 0
		return false
	}
	// back edge: preserve, decrease, stop
	le := fr.LoopIn[fr.Block]
	if ls != nil {
		env := ex.loopEnv(st, fr)
		for i, c := range ls.Invariants {
			t := ex.evalBool(env, c.Expr)
			ex.emit(st, "inv-preserved", fmt.Sprintf("%s:%s", key, clauseLabel(c, i)), t, fr.Block.Instrs[0].Pos(), mergeProps(props, c.Props))
		}
		if le != nil && len(ls.Decreases) > 0 {
			var now []*Term
			for _, d := range ls.Decreases {
				now = append(now, ex.evalInt(env, d))
			}
			ex.emit(st, "decreases", key, lexLess(now, le.Measure), fr.Block.Instrs[0].Pos(), props)
		}
	}
	for i, a := range auto {
		ex.emit(st, "inv-preserved", fmt.Sprintf("%s:auto%d", key, i), a(st), token.NoPos, nil)
	}
	st.Dead = true
	return false
}

// lexLess: now <lex before, with every component bounded below by 0 at the point of decrease.
func lexLess(now, before []*Term) *Term {
	var alts []*Term
	for i := range now {
		var cs []*Term
		for j := 0; j < i; j++ {
			cs = append(cs, Eq(now[j], before[j]))
		}
		cs = append(cs, Lt(now[i], before[i]), Le(Zero, before[i]))
		alts = append(alts, And(cs...))
	}
	return Or(alts...)
}

func clauseLabel(c Clause, i int) string {
	if c.Label != "" {
		return c.Label
	}
	return fmt.Sprintf("%d", i+1)
}

func mergeProps(a, b []string) []string {
	seen := map[string]bool{}
	var out []string
	for _, x := range append(append([]string{}, a...), b...) {
		if !seen[x] {
			seen[x] = true
			out = append(out, x)
		}
	}
	return out
}

// rangeIndexOf: the hidden index cell of a range-over-slice loop (nil for other loops).
func rangeIndexOf(ld *loopDesc) *ssa.Alloc {
	for _, in := range ld.Head.Instrs {
		bo, ok := in.(*ssa.BinOp)
		if !ok || bo.Op != token.LSS {
			continue
		}
		add, ok := bo.X.(*ssa.BinOp)
		if !ok || add.Op != token.ADD {
			continue
		}
		ld0, ok := add.X.(*ssa.UnOp)
		if !ok || ld0.Op != token.MUL {
			continue
		}
		if al, ok := ld0.X.(*ssa.Alloc); ok && al.Comment == "rangeindex" {
			return al
		}
	}
	return nil
}

// enclosingRangeIndex: index cell of the innermost range loop containing the frame's current block.
func (ex *Exec) enclosingRangeIndex(fr *Frame) *ssa.Alloc {
	if fr.Fn == nil || fr.Block == nil {
		return nil
	}
	var best *loopDesc
	for _, ld := range ex.loopsOf(fr.Fn).ByHead {
		if !ld.Blocks[fr.Block] && ld.Head != fr.Block {
			continue
		}
		if rangeIndexOf(ld) == nil {
			continue
		}
		if best == nil || len(ld.Blocks) < len(best.Blocks) {
			best = ld
		}
	}
	if best == nil {
		return nil
	}
	return rangeIndexOf(best)
}

// autoInvariants: -1 <= rangeindex (&& rangeindex < len when positive).
func (ex *Exec) autoInvariants(st *State, fr *Frame, ld *loopDesc) []func(*State) *Term {
	var out []func(*State) *Term
	for _, in := range ld.Head.Instrs {
		bo, ok := in.(*ssa.BinOp)
		if !ok || bo.Op != token.LSS {
			continue
		}
		// X = (load idxcell) + 1 stored back; Y defined outside the loop
		add, ok := bo.X.(*ssa.BinOp)
		if !ok || add.Op != token.ADD {
			continue
		}
		ld0, ok := add.X.(*ssa.UnOp)
		if !ok || ld0.Op != token.MUL {
			continue
		}
		al, ok := ld0.X.(*ssa.Alloc)
		if !ok || al.Comment != "rangeindex" {
			continue
		}
		lenV := bo.Y
		if li, ok := lenV.(ssa.Instruction); ok && ld.Blocks[li.Block()] {
			continue
		}
		cell := fr.Cells[al]
		if cell == nil {
			continue
		}
		frr := fr
		out = append(out, func(s *State) *Term {
			idx := s.Locals[cell].(Scalar).T
			n := ex.val(s, s.frameOf(frr), lenV).(Scalar).T
			return And(Le(IntLit(-1), idx), Or(Eq(idx, IntLit(-1)), Lt(idx, n)))
		})
	}
	return out
}

func (st *State) frameOf(fr *Frame) *Frame {
	// frames are cloned on fork; find the clone at the same depth
	for _, f := range st.Frames {
		if f.Fn == fr.Fn && f.Depth == fr.Depth {
			return f
		}
	}
	return st.top()
}
