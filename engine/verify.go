package main

import (
	"sort"
	"path/filepath"
	"fmt"
	"go/ast"
	"go/token"
	"go/types"
	"os"
	"strings"

	"golang.org/x/tools/go/ssa"
)

var srcCache = map[string][]byte{}

func (p *Program) source(file string) []byte {
	if b, ok := srcCache[file]; ok {
		return b
	}
	b, err := os.ReadFile(file)
	if err != nil {
		b = nil
	}
	srcCache[file] = b
	return b
}

// ---------- frame conditions ----------

type modLoc struct {
	anyObj bool  // every object of the class
	class string // class prefix
	ref   *Term  // nil: any object of the class
	arr   *Term  // slice element roots: backing array
	lo    *Term
	hi    *Term
}

// allowedMods evaluates the top-level modifies clauses at entry.
func (ex *Exec) allowedMods(st *State, fr *Frame) []modLoc {
	sp := fr.Spec
	if sp == nil {
		return nil
	}
	var out []modLoc
	env := ex.funcEnv(st, fr)
	env.lets = sp.Lets
	for _, m := range sp.Modifies {
		out = append(out, ex.lvalueLocs(env, m.Expr)...)
	}
	return out
}

// lvalueLocs: x.f -> (class T.f, ref x); x.$g; x.f[*] -> elements of the slice x.f; *p
func (ex *Exec) lvalueLocs(env *SpecEnv, e ast.Expr) []modLoc {
	switch x := e.(type) {
	case *ast.Ident:
		if strings.HasPrefix(x.Name, "ghost_") {
			return []modLoc{{class: "G:$" + strings.TrimPrefix(x.Name, "ghost_"), ref: Zero}}
		}
	case *ast.ParenExpr:
		return ex.lvalueLocs(env, x.X)
	case *ast.CallExpr:
		// closed(ch): the closedness of channel ch; closed(any): of every channel
		if id, ok := x.Fun.(*ast.Ident); ok && (id.Name == "closed" || id.Name == "cancelled") && len(x.Args) == 1 {
			cls := chanClosedClass
			if id.Name == "cancelled" {
				cls = ctxCancelledClass
			}
			if a, ok := x.Args[0].(*ast.Ident); ok && a.Name == "any" {
				return []modLoc{{class: cls, anyObj: true}}
			}
			return []modLoc{{class: cls, ref: env.eval(x.Args[0]).V.(Scalar).T}}
		}
	case *ast.SelectorExpr:
		// any(T).f: field f of every object of type T
		if call, ok := x.X.(*ast.CallExpr); ok {
			if id, ok := call.Fun.(*ast.Ident); ok && id.Name == "any" && len(call.Args) == 1 {
				t := env.resolveType(call.Args[0])
				if t == nil {
					tool("modifies: unknown type in %s", exprString(e))
				}
				fname := x.Sel.Name
				if strings.HasPrefix(fname, "ghost_") {
					fname = "$" + strings.TrimPrefix(fname, "ghost_")
				}
				return []modLoc{{class: typeName(t) + "." + fname, anyObj: true}}
			}
		}
		base := env.eval(x.X)
		t := base.T
		if pt, ok := under(t).(*types.Pointer); ok {
			t = pt.Elem()
		}
		name := x.Sel.Name
		if iv, ok := base.V.(IfaceV); ok && strings.HasPrefix(name, "ghost_") {
			return []modLoc{{class: typeName(t) + ".$" + strings.TrimPrefix(name, "ghost_"), ref: iv.Val}}
		}
		p, ok := base.V.(*PtrV)
		if !ok {
			tool("modifies: base of %s is not a pointer", exprString(e))
		}
		if strings.HasPrefix(name, "ghost_") {
			return []modLoc{{class: typeName(t) + ".$" + strings.TrimPrefix(name, "ghost_"), ref: ptrTerm(p)}}
		}
		st, ok := under(t).(*types.Struct)
		if !ok {
			tool("modifies: %s is not a struct field", exprString(e))
		}
		for i := 0; i < st.NumFields(); i++ {
			if st.Field(i).Name() == name {
				ft := st.Field(i).Type()
				if isStructT(ft) {
					return []modLoc{{class: classOf(ft) + ".", ref: fldRef(p.Class, name, p.Ref)}}
				}
				return []modLoc{{class: p.Class + "." + name, ref: p.Ref}}
			}
		}
		tool("modifies: no field %s", name)
	case *ast.StarExpr:
		base := env.eval(x.X)
		p, ok := base.V.(*PtrV)
		if !ok {
			tool("modifies: *%s is not a pointer", exprString(x.X))
		}
		if isStructT(p.Elem) {
			return []modLoc{{class: p.Class + ".", ref: p.Ref}}
		}
		return []modLoc{{class: p.Class, ref: p.Ref}}
	case *ast.IndexExpr:
		// s[*] or s[lo:hi] written as s[all]
		base := env.eval(x.X)
		if _, isMap := under(base.T).(*types.Map); isMap {
			return []modLoc{{class: mapClass(base.T), ref: base.V.(Scalar).T}}
		}
		s, ok := base.V.(SliceV)
		if !ok {
			tool("modifies: %s is not a slice", exprString(x.X))
		}
		et := under(base.T).(*types.Slice).Elem()
		return []modLoc{{class: "[]" + typeName(et), arr: s.Arr, lo: s.Off, hi: Add(s.Off, s.Cap)}}
	}
	tool("modifies: unsupported lvalue %s", exprString(e))
	return nil
}

func (ex *Exec) isGhostLocalClass(class string) bool {
	if !strings.HasPrefix(class, "G:$") {
		return false
	}
	name := strings.TrimPrefix(class, "G:$")
	for _, sep := range []string{"@", ".", "["} {
		if i := strings.Index(name, sep); i >= 0 {
			name = name[:i]
		}
	}
	return ex.Specs.GhostLocal[name]
}

func classMatches(class, prefix string) bool {
	if class == prefix {
		return true
	}
	if strings.HasPrefix(prefix, "map:") {
		return strings.HasPrefix(class, prefix+"#")
	}
	if strings.HasSuffix(prefix, ".") {
		return strings.HasPrefix(class, prefix)
	}
	return strings.HasPrefix(class, prefix+"@") || strings.HasPrefix(class, prefix+"[") || strings.HasPrefix(class, prefix+".")
}

func (ex *Exec) topFrame(st *State) *Frame {
	if len(st.Frames) == 0 {
		return &Frame{} // a specification expression evaluated on a view of an earlier state
	}
	return st.Frames[0]
}

// checkFrame: a heap store must hit a fresh object or a location listed in the top-level modifies clause.
func (ex *Exec) checkFrame(st *State, p *PtrV, pos token.Pos) {
	ex.checkGuardedWrite(st, st.top(), p, pos)
	ex.checkImmutable(st, p, pos)
	top := ex.topFrame(st)
	// 'preserves-type T' is a promise also under 'modifies *': no store into a T that existed at entry
	if top.Spec != nil && ex.pure == nil && !st.Fresh[p.Ref] && top.EntryFull != nil {
		for _, tn := range top.Spec.PreservesTypes {
			if p.Class == tn || strings.HasPrefix(p.Class, tn+".") {
				ex.emit(st, "frame", ex.srcLabel(st.top().Fn, pos, "preserves-type:"+tn), Lt(top.EntryFull.Frontier, p.Ref), pos, top.Spec.Props)
			}
		}
	}
	if top.Spec == nil || ex.pure != nil {
		return
	}
	class := p.Class
	if len(p.Path) > 0 && p.Path[0].Field >= 0 {
		class = p.Class + "." + fieldName(p.RT, p.Path[0].Field)
	}
	if top.Spec.ModAll && !(len(ex.Specs.StrictFields) > 0 && isGhostClass(class)) {
		return
	}
	if st.Fresh[p.Ref] {
		return
	}
	var alts []*Term
	alts = append(alts, Lt(top.EntryFull.Frontier, p.Ref))
	// elements of struct slices whose backing array is fresh
	if p.Ref.Op == "uf" && strings.HasPrefix(p.Ref.Name, "elemref:") && len(p.Ref.Args) == 2 {
		alts = append(alts, Lt(top.EntryFull.Frontier, p.Ref.Args[0]))
		if st.Fresh[p.Ref.Args[0]] {
			return
		}
	}
	// interior objects of fresh objects
	if p.Ref.Op == "uf" && strings.HasPrefix(p.Ref.Name, "fld:") && len(p.Ref.Args) == 1 {
		alts = append(alts, Lt(top.EntryFull.Frontier, p.Ref.Args[0]))
		if st.Fresh[p.Ref.Args[0]] {
			return
		}
	}
	for _, m := range top.Mods {
		if m.anyObj && classMatches(class, m.class) {
			return
		}
		if m.ref != nil && classMatches(class, m.class) || (m.ref != nil && len(p.Path) == 0 && strings.HasPrefix(m.class, class+".")) {
			alts = append(alts, Eq(p.Ref, m.ref))
		}
	}
	ex.emit(st, "frame", ex.srcLabel(st.top().Fn, pos, "store:"+class), Or(alts...), pos, top.Spec.Props)
}

func (ex *Exec) checkFrameElem(st *State, p *PtrV, pos token.Pos, cond ...*Term) {
	top := ex.topFrame(st)
	// write-once element classes: only arrays allocated by the function being verified may be written
	if p.Elem != nil && ex.pure == nil && !st.Fresh[p.Arr] {
		if props, ok := ex.Specs.ImmutableElems["[]"+typeName(p.Elem)]; ok && top.EntryFull != nil {
			g := Lt(top.EntryFull.Frontier, p.Arr)
			for _, c := range cond {
				g = Implies(c, g)
			}
			ex.emit(st, "immutable", "elements of []"+typeName(p.Elem), g, pos, props)
		}
	}
	if top.Spec == nil || top.Spec.ModAll || ex.pure != nil {
		return
	}
	if st.Fresh[p.Arr] {
		return
	}
	class := p.Class // a callee's 'modifies s[*]' names the element class directly
	if p.Elem != nil {
		class = "[]" + typeName(p.Elem)
	}
	var alts []*Term
	alts = append(alts, Lt(top.EntryFull.Frontier, p.Arr))
	for _, m := range top.Mods {
		if m.arr != nil && m.class == class {
			alts = append(alts, And(Eq(p.Arr, m.arr), Le(m.lo, p.Idx), Lt(p.Idx, m.hi)))
		}
	}
	g := Or(alts...)
	for _, c := range cond {
		g = Implies(c, g)
	}
	ex.emit(st, "frame", ex.srcLabel(st.top().Fn, pos, "store:"+class), g, pos, top.Spec.Props)
}

// checkFrameMap: writing a map needs the map (or '*') in the modifies clause, unless the map is fresh.
func (ex *Exec) checkFrameMap(st *State, t types.Type, ref *Term, pos token.Pos) {
	top := ex.topFrame(st)
	class := mapClass(t)
	if top.Spec == nil || (top.Spec.ModAll && !isGhostClass(class)) || ex.pure != nil || st.Fresh[ref] {
		return
	}
	alts := []*Term{Lt(top.EntryFull.Frontier, ref)}
	for _, m := range top.Mods {
		if m.ref != nil && m.class == class {
			alts = append(alts, Eq(ref, m.ref))
		}
	}
	ex.emit(st, "frame", ex.srcLabel(st.top().Fn, pos, "mapwrite:"+class), Or(alts...), pos, top.Spec.Props)
}

// checkFrameChan: closing a channel needs closed(ch) (or '*') in the modifies clause, unless the channel is fresh.
func (ex *Exec) checkFrameChan(st *State, ch *Term, pos token.Pos) {
	top := ex.topFrame(st)
	if top.Spec == nil || top.Spec.ModAll || ex.pure != nil || st.Fresh[ch] {
		return
	}
	alts := []*Term{Lt(top.EntryFull.Frontier, ch)}
	for _, m := range top.Mods {
		if m.class == chanClosedClass {
			if m.anyObj {
				return
			}
			if m.ref != nil {
				alts = append(alts, Eq(ch, m.ref))
			}
		}
	}
	ex.emit(st, "frame", ex.srcLabel(st.top().Fn, pos, "close"), Or(alts...), pos, top.Spec.Props)
}

// checkFrameCancel: calling a cancel function that existed at entry needs cancelled(f) (or '*') in the modifies clause.
func (ex *Exec) checkFrameCancel(st *State, f *Term, pos token.Pos) {
	top := ex.topFrame(st)
	if top.Spec == nil || top.Spec.ModAll || ex.pure != nil || st.Fresh[f] || top.EntryFull == nil {
		return
	}
	alts := []*Term{Lt(top.EntryFull.Frontier, f)}
	for _, m := range top.Mods {
		if m.class == ctxCancelledClass {
			if m.anyObj {
				return
			}
			if m.ref != nil {
				alts = append(alts, Eq(f, m.ref))
			}
		}
	}
	ex.emit(st, "frame", ex.srcLabel(st.top().Fn, pos, "cancel"), Or(alts...), pos, top.Spec.Props)
}

// checkFrameGhostField: an update of a ghost field of object ref (class "T.$f") needs that field of that object
// in the modifies clause ('modifies *' does not cover ghost state), unless the object is fresh.
func (ex *Exec) checkFrameGhostField(st *State, class string, ref *Term, pos token.Pos) {
	top := ex.topFrame(st)
	if top.Spec == nil || ex.pure != nil || st.Fresh[ref] || top.EntryFull == nil {
		return
	}
	alts := []*Term{Lt(top.EntryFull.Frontier, ref)}
	for _, m := range top.Mods {
		if m.anyObj && (m.class == class || classMatches(class, m.class)) {
			return
		}
		if m.ref != nil && (m.class == class || classMatches(class, m.class)) {
			alts = append(alts, Eq(ref, m.ref))
		}
	}
	ex.emit(st, "frame", ex.srcLabel(st.top().Fn, pos, "store:"+class), Or(alts...), pos, top.Spec.Props)
}

func (ex *Exec) checkImmutable(st *State, p *PtrV, pos token.Pos) {
	if p.Root != RObj || len(p.Path) == 0 || p.Path[0].Field < 0 {
		return
	}
	ts := ex.Specs.Types[p.Class]
	if ts == nil {
		return
	}
	f := fieldName(p.RT, p.Path[0].Field)
	if !ts.Immutable[f] || st.Fresh[p.Ref] {
		return
	}
	ex.emit(st, "immutable", fmt.Sprintf("%s.%s", p.Class, f), False, pos, ts.Props)
}

// havocLvalue havocs the locations named by a callee's modifies clause (and checks them against the caller's frame).
func (ex *Exec) havocLvalue(st *State, fr *Frame, env *SpecEnv, m Clause, pos token.Pos) {
	for _, loc := range ex.lvalueLocs(env, m.Expr) {
		if loc.anyObj {
			for class := range classSorts {
				if classMatches(class, loc.class) {
					st.havocClass(class)
				}
			}
			st.HavPrefix = append(st.HavPrefix, loc.class)
			if top := ex.topFrame(st); top.Spec != nil && !top.Spec.ModAll && ex.pure == nil {
				ok := false
				for _, mm := range top.Mods {
					if mm.anyObj && mm.class == loc.class {
						ok = true
					}
				}
				if !ok {
					ex.emit(st, "frame", "call:any:"+loc.class, False, pos, top.Spec.Props)
				}
			}
			continue
		}
		if loc.arr != nil {
			anyClass := false
			for class, srt := range classSorts {
				if classMatches(class, loc.class) && srt.Kind == KArr && srt.Elem.Kind == KArr {
					anyClass = true
				}
			}
			if !anyClass {
				st.HavPrefix = append(st.HavPrefix, loc.class)
			}
			for class, srt := range classSorts {
				if classMatches(class, loc.class) && srt.Kind == KArr && srt.Elem.Kind == KArr {
					h := st.heapGet(class, srt)
					nh := Fresh("H:"+class, srt)
					a := Fresh("a", SInt)
					k := Fresh("k", SInt)
					st.assume(Forall([]*Term{a}, Implies(Neq(a, loc.arr), Eq(Select(nh, a), Select(h, a)))))
					st.assume(Forall([]*Term{k}, Implies(Or(Lt(k, loc.lo), Le(loc.hi, k)), Eq(Select(Select(nh, loc.arr), k), Select(Select(h, loc.arr), k)))))
					st.heapSet(class, nh)
				}
			}
			ex.checkFrameElem(st, &PtrV{Root: RElem, Arr: loc.arr, Idx: loc.lo, Elem: nil, Class: loc.class}, pos)
			continue
		}
		touched := false
		for class, srt := range classSorts {
			if classMatches(class, loc.class) && srt.Kind == KArr && srt.Idx == SInt {
				h := st.heapGet(class, srt)
				st.heapSet(class, Store(h, loc.ref, Fresh("mod:"+class, srt.Elem)))
				touched = true
			}
		}
		if !touched {
			// the class has not been read yet on this path: whoever reads it first after this call must
			// not see the pre-call heap
			st.HavPrefix = append(st.HavPrefix, loc.class)
		}
		// caller frame: the callee's footprint must be inside the caller's
		top := ex.topFrame(st)
		if top.Spec != nil && (!top.Spec.ModAll || isGhostClass(loc.class)) && ex.pure == nil && !st.Fresh[loc.ref] && !ex.isGhostLocalClass(loc.class) {
			var alts []*Term
			alts = append(alts, Lt(top.EntryFull.Frontier, loc.ref))
			covered := false
			for _, mm := range top.Mods {
				if mm.anyObj && (mm.class == loc.class || classMatches(loc.class, mm.class)) {
					covered = true
				}
			}
			if covered {
				continue
			}
			for _, mm := range top.Mods {
				if mm.ref != nil && (classMatches(loc.class, mm.class) || classMatches(mm.class, loc.class) || mm.class == loc.class) {
					alts = append(alts, Eq(loc.ref, mm.ref))
				}
			}
			ex.emit(st, "frame", "call:"+loc.class+"@"+exprString(m.Expr), Or(alts...), pos, top.Spec.Props)
		}
	}
}

// ---------- loop havoc ----------

// havocLoop forgets everything the loop body may change: local cells stored in the loop and heap classes.
func (ex *Exec) havocLoop(st *State, fr *Frame, ld *loopDesc) {
	heapAll := false
	ghostAll := false
	classes := map[string]bool{}
	objHavoc := map[string][]*Term{} // class prefix -> objects of this function's frame stored to in the loop
	// types every "may write anything" callee of the loop promises to leave alone (nil entry = no promise)
	var promises [][]string
	all := func(sp *FuncSpec) {
		heapAll = true
		switch {
		case sp == nil:
			promises = append(promises, nil)
		case sp.Extern:
			promises = append(promises, []string{"*"})
		default:
			promises = append(promises, sp.PreservesTypes)
		}
	}
	var scan func(fn *ssa.Function, blocks map[*ssa.BasicBlock]bool, depth int)
	scan = func(fn *ssa.Function, blocks map[*ssa.BasicBlock]bool, depth int) {
		for _, b := range fn.Blocks {
			if blocks != nil && !blocks[b] {
				continue
			}
			for _, in := range b.Instrs {
				switch x := in.(type) {
				case *ssa.Store:
					if fn == fr.Fn {
						if c := ex.rootCell(fr, x.Addr); c != nil {
							if v, ok := st.Locals[c]; ok {
								nv := freshValue("loop:"+c.Name, c.Typ)
								_ = v
								st.Locals[c] = nv
								ex.assumeInv(st, c.Typ, nv)
							}
							continue
						}
					} else if rootAlloc(x.Addr) != nil && !rootAlloc(x.Addr).Heap {
						continue
					}
					// a struct-typed local of this function is one object: a store into it changes that object
					// only - nothing at all when the object is created inside the loop body
					if al := rootAlloc(x.Addr); al != nil && fn == fr.Fn {
						if blocks != nil && blocks[al.Block()] {
							continue
						}
						if pv, ok := fr.Regs[al].(*PtrV); ok && pv.Root == RObj && len(pv.Path) == 0 {
							for _, c := range staticClasses(x.Addr) {
								objHavoc[c] = append(objHavoc[c], pv.Ref)
							}
							continue
						}
					}
					for _, c := range staticClasses(x.Addr) {
						if c == "" && os.Getenv("VCGO_TRACE") != "" {
							fmt.Fprintln(os.Stderr, "UNKNOWNCLASS store", x.Addr.String(), x.Addr.Type().String(), fn.Prog.Fset.Position(x.Pos()))
						}
						classes[c] = true
					}
				case *ssa.MapUpdate:
					classes[mapClass(x.Map.Type())] = true
				case *ssa.Select:
					if tsp := ex.Specs.Funcs[specName(fr.Fn)]; tsp != nil && fn == fr.Fn {
						for _, gs := range tsp.GhostSets {
							if gs.Callee == "select" {
								for _, n := range gs.Names {
									classes["G:$"+n] = true
								}
							}
						}
					}
				case ssa.CallInstruction:
					cc := x.Common()
					// ghost recorders attached to this call change in the loop
					if tsp := ex.Specs.Funcs[specName(fr.Fn)]; tsp != nil && fn == fr.Fn {
						cname := ""
						if cc.IsInvoke() {
							cname = typeName(cc.Value.Type()) + "." + cc.Method.Name()
						} else if f := cc.StaticCallee(); f != nil {
							cname = specName(f)
						}
						for _, gs := range tsp.GhostSets {
							if gs.Callee == cname {
								for _, n := range gs.Names {
									classes["G:$"+n] = true
								}
							}
						}
					}
					if cc.IsInvoke() {
						key := typeName(cc.Value.Type()) + "." + cc.Method.Name()
						if sp, ok := ex.Specs.Ifaces[key]; ok && sp.ModNone {
							continue
						}
						if sp, ok := ex.Specs.Ifaces[key]; ok && !sp.ModAll {
							for _, m := range sp.Modifies {
								for _, c := range ex.staticModClasses(sp, nil, cc.Method.Type().(*types.Signature), m.Expr) {
									classes[c] = true
								}
							}
							continue
						}
						if sp, ok := ex.Specs.Ifaces[key]; ok {
							for _, m := range sp.Modifies {
								for _, c := range ex.staticModClasses(sp, nil, cc.Method.Type().(*types.Signature), m.Expr) {
									classes[c] = true
								}
							}
							all(sp)
						} else {
							ghostAll = true
							all(nil)
						}
						continue
					}
					if bi, ok := cc.Value.(*ssa.Builtin); ok {
						switch bi.Name() {
						case "append", "copy":
							if sl, ok := under(cc.Args[0].Type()).(*types.Slice); ok {
								classes["[]"+typeName(sl.Elem())] = true
							}
						case "delete":
							classes[mapClass(cc.Args[0].Type())] = true
						case "clear", "close":
							all(nil)
						}
						continue
					}
					callee := cc.StaticCallee()
					if callee == nil {
						all(nil)
						ghostAll = true
						continue
					}
					full := callee.String()
					if _, ok := models[full]; ok {
						if strings.Contains(full, "Lock") || strings.Contains(full, "Unlock") {
							all(nil) // monitor entry havocs guarded state
						}
						if strings.Contains(full, "atomic") {
							classes["atomic.Value"] = true
							for _, a := range cc.Args[:1] {
								for _, c := range staticClasses(a) {
									classes[c] = true
								}
							}
						}
						continue
					}
					if isPatternPure(full) && !(callee.Blocks != nil && ex.inRepo(callee)) {
						continue
					}
					sp := ex.Specs.Funcs[specName(callee)]
					if sp != nil && !sp.Inline {
						if sp.ModNone {
							continue
						}
						if sp.ModAll {
							all(sp)
						}
						for _, m := range sp.Modifies {
							for _, c := range ex.staticModClasses(sp, callee, callee.Signature, m.Expr) {
								classes[c] = true
							}
						}
						continue
					}
					if callee.Blocks != nil && ex.inRepo(callee) && depth < ex.MaxInline {
						scan(callee, nil, depth+1)
						for _, an := range callee.AnonFuncs {
							scan(an, nil, depth+1)
						}
						continue
					}
					all(nil)
					if callee.Blocks != nil && ex.inRepo(callee) {
						ghostAll = true
					}
				}
			}
		}
	}
	scan(fr.Fn, ld.Blocks, fr.Depth)
	if os.Getenv("VCGO_TRACE") != "" {
		var ks []string
		for c := range classes {
			ks = append(ks, c)
		}
		sort.Strings(ks)
		fmt.Fprintln(os.Stderr, "LOOPHAVOC", specName(fr.Fn), "heapAll", heapAll, strings.Join(ks, " "))
	}
	if heapAll {
		// types that every such callee preserves and that the loop does not store to directly keep their state
		keep := map[string]*Term{}
		var keptTypes []string
		if len(promises) > 0 && promises[0] != nil {
			cand := map[string]bool{}
			top := ex.topFrame(st)
			for _, pr := range promises {
				if len(pr) == 1 && pr[0] == "*" {
					continue
				}
				for _, t := range pr {
					cand[t] = true
				}
			}
			if top.Spec != nil {
				for _, t := range top.Spec.PreservesTypes {
					cand[t] = true
				}
			}
			for t := range cand {
				ok := true
				for _, pr := range promises {
					if pr == nil {
						ok = false
						break
					}
					if len(pr) == 1 && pr[0] == "*" {
						continue
					}
					has := false
					for _, t2 := range pr {
						if t2 == t {
							has = true
						}
					}
					if !has {
						ok = false
					}
				}
				for c := range classes {
					if c == t || strings.HasPrefix(c, t+".") {
						ok = false
					}
				}
				if ok {
					keptTypes = append(keptTypes, t)
					for class, h := range st.Heap {
						if strings.HasPrefix(class, t+".") {
							keep[class] = h
						}
					}
				}
			}
		}
		st.PendingExcept = keptTypes
		ex.havocAll(st, true, ghostAll)
		for class, h := range keep {
			st.Heap[class] = h
		}
		nf := Fresh("hi", SInt)
		st.assume(Le(st.Frontier, nf))
		st.Frontier = nf
	}
	for c, refs := range objHavoc {
		if heapAll || classes[c] {
			continue
		}
		for class, srt := range classSorts {
			if (classMatches(class, c) || class == c) && srt.Kind == KArr && srt.Idx == SInt {
				h := st.heapGet(class, srt)
				for _, r := range refs {
					h = Store(h, r, Fresh("loop:"+class, srt.Elem))
				}
				st.Heap[class] = h
			}
		}
	}
	for c := range classes {
		if heapAll && !isGhostClass(c) {
			continue
		}
		for class := range classSorts {
			if classMatches(class, c) || class == c {
				st.havocClass(class)
			}
		}
		st.HavPrefix = append(st.HavPrefix, c)
	}
	if len(classes) > 0 {
		nf := Fresh("hi", SInt)
		st.assume(Le(st.Frontier, nf))
		st.Frontier = nf
	}
}

func isPatternPure(full string) bool {
	for _, p := range noEffect {
		if strings.HasPrefix(full, p) {
			return true
		}
	}
	for _, p := range purePkgs {
		if strings.HasPrefix(full, p) {
			return true
		}
	}
	return false
}

func rootAlloc(v ssa.Value) *ssa.Alloc {
	for {
		switch x := v.(type) {
		case *ssa.Alloc:
			return x
		case *ssa.FieldAddr:
			v = x.X
		case *ssa.IndexAddr:
			if _, ok := under(x.X.Type()).(*types.Pointer); ok {
				v = x.X
			} else {
				return nil
			}
		default:
			return nil
		}
	}
}

func (ex *Exec) rootCell(fr *Frame, v ssa.Value) *Cell {
	a := rootAlloc(v)
	if a == nil || a.Heap {
		return nil
	}
	return fr.Cells[a]
}

// staticClasses mirrors the dynamic class naming for an address expression.
func staticClasses(addr ssa.Value) []string {
	switch x := addr.(type) {
	case *ssa.FieldAddr:
		st := x.X.Type().(*types.Pointer).Elem()
		// when the base is a global, the class carries the global's name
		if g, ok := x.X.(*ssa.Global); ok {
			return []string{"G:" + shortPkg(g.Pkg.Pkg) + "." + g.Name() + "." + fieldName(st, x.Field)}
		}
		ft := fieldType(st, x.Field)
		if isStructT(ft) {
			return []string{classOf(ft) + "."}
		}
		return []string{classOf(st) + "." + fieldName(st, x.Field)}
	case *ssa.IndexAddr:
		switch t := under(x.X.Type()).(type) {
		case *types.Slice:
			if isStructT(t.Elem()) {
				return []string{classOf(t.Elem()) + "."}
			}
			return []string{"[]" + typeName(t.Elem())}
		case *types.Pointer:
			return staticClasses(x.X)
		}
	case *ssa.Global:
		t := x.Type().(*types.Pointer).Elem()
		_ = t
		return []string{"G:" + shortPkg(x.Pkg.Pkg) + "." + x.Name()}
	}
	t := addr.Type().(*types.Pointer).Elem()
	if isStructT(t) {
		return []string{classOf(t) + "."}
	}
	return []string{classOf(t)}
}

// staticModClasses: classes named by a modifies clause, resolved with static types only.
func (ex *Exec) staticModClasses(sp *FuncSpec, fn *ssa.Function, sig *types.Signature, e ast.Expr) []string {
	var typeOf func(e ast.Expr) types.Type
	typeOf = func(e ast.Expr) types.Type {
		switch x := e.(type) {
		case *ast.ParenExpr:
			return typeOf(x.X)
		case *ast.CallExpr:
			// as(x, T) / view(x, T): the static type is T
			if id, ok := x.Fun.(*ast.Ident); ok && (id.Name == "as" || id.Name == "view") && len(x.Args) == 2 {
				env := &SpecEnv{ex: ex, pkg: ex.specPkg(sp, fn)}
				return env.resolveType(x.Args[1])
			}
		case *ast.Ident:
			if le, ok := sp.Lets[x.Name]; ok {
				return typeOf(le)
			}
			if fn != nil {
				for _, p := range fn.Params {
					if p.Name() == x.Name {
						return p.Type()
					}
				}
			}
			if sig.Recv() != nil && (sig.Recv().Name() == x.Name || x.Name == "recv") {
				return sig.Recv().Type()
			}
			for i := 0; i < sig.Params().Len(); i++ {
				if sig.Params().At(i).Name() == x.Name {
					return sig.Params().At(i).Type()
				}
			}
		case *ast.SelectorExpr:
			bt := typeOf(x.X)
			if bt == nil {
				return nil
			}
			if p, ok := under(bt).(*types.Pointer); ok {
				bt = p.Elem()
			}
			if st, ok := under(bt).(*types.Struct); ok {
				for i := 0; i < st.NumFields(); i++ {
					if st.Field(i).Name() == x.Sel.Name {
						return st.Field(i).Type()
					}
				}
			}
		case *ast.StarExpr:
			bt := typeOf(x.X)
			if p, ok := under(bt).(*types.Pointer); ok {
				return p.Elem()
			}
		}
		return nil
	}
	switch x := e.(type) {
	case *ast.Ident:
		if strings.HasPrefix(x.Name, "ghost_") {
			return []string{"G:$" + strings.TrimPrefix(x.Name, "ghost_")}
		}
	case *ast.CallExpr:
		if id, ok := x.Fun.(*ast.Ident); ok && id.Name == "closed" {
			return []string{chanClosedClass}
		}
		if id, ok := x.Fun.(*ast.Ident); ok && id.Name == "cancelled" {
			return []string{ctxCancelledClass}
		}
	case *ast.SelectorExpr:
		bt := typeOf(x.X)
		if bt != nil {
			if p, ok := under(bt).(*types.Pointer); ok {
				bt = p.Elem()
			}
			name := x.Sel.Name
			if strings.HasPrefix(name, "ghost_") {
				return []string{typeName(bt) + ".$" + strings.TrimPrefix(name, "ghost_")}
			}
			ft := typeOf(e)
			if ft != nil && isStructT(ft) {
				return []string{classOf(ft) + "."}
			}
			return []string{typeName(bt) + "." + name}
		}
	case *ast.StarExpr:
		if t := typeOf(e); t != nil {
			if isStructT(t) {
				return []string{classOf(t) + "."}
			}
			return []string{classOf(t)}
		}
	case *ast.IndexExpr:
		if t := typeOf(x.X); t != nil {
			if sl, ok := under(t).(*types.Slice); ok {
				return []string{"[]" + typeName(sl.Elem())}
			}
			if _, ok := under(t).(*types.Map); ok {
				return []string{mapClass(t)}
			}
		}
	}
	return []string{""} // unknown: matches everything via prefix
}

// ---------- postconditions ----------

func (ex *Exec) checkPost(st *State, fr *Frame, res Value) {
	sp := fr.Spec
	if sp == nil {
		return
	}
	env := ex.funcEnv(st, fr)
	env.lets = sp.Lets
	env.old = fr.EntryFull
	env.inPost = true
	env.bindResults(fr.Fn.Signature, res)
	pos := fr.Fn.Pos()
	if call, ok := sp.ReplayPost.(*ast.CallExpr); ok {
		saveA, saveL, saveF := ex.ReplayArgs, ex.ReplayLen, ex.ReplayFn
		ex.ReplayArgs, ex.ReplayLen = nil, nil
		for _, a := range call.Args {
			ex.ReplayArgs = append(ex.ReplayArgs, env.eval(a))
			ex.ReplayLen = append(ex.ReplayLen, false)
		}
		if id, ok := call.Fun.(*ast.Ident); ok {
			ex.ReplayFn = id.Name
		}
		ex.ReplayPkg = pkgOfFn(fr.Fn)
		defer func() { ex.ReplayArgs, ex.ReplayLen, ex.ReplayFn = saveA, saveL, saveF }()
	}
	for i, c := range sp.Ensures {
		t := ex.evalBool(env, c.Expr)
		if k, ok := sp.Known[c.Label]; ok && c.Label != "" {
			// a recorded finding: the clause must hold outside the recorded region; inside it, it is
			// expected to fail (matched against known_findings.json by obligation name)
			r := ex.evalBool(env, k.Expr)
			ex.emit(st, "post", clauseLabel(c, i)+"/outside-region", Implies(Not(r), t), pos, mergeProps(sp.Props, c.Props))
			ex.emit(st, "post", clauseLabel(c, i)+"/in-region", Implies(r, t), pos, mergeProps(sp.Props, c.Props))
			continue
		}
		ex.emit(st, "post", clauseLabel(c, i), t, pos, mergeProps(sp.Props, c.Props))
	}
	// lock balance: the function returns with exactly the locks it was entered with
	bal := true
	for k, v := range st.Locks {
		if fr.EntryFull.Locks[k] != v {
			bal = false
		}
	}
	for k, v := range fr.EntryFull.Locks {
		if st.Locks[k] != v {
			bal = false
		}
	}
	if len(st.Locks) > 0 || len(fr.EntryFull.Locks) > 0 {
		ex.emit(st, "lock", "balanced-at-return", BoolLit(bal), pos, []string{"C18"})
	}
}

// ---------- top level ----------

var verifySeq int

func newState() *State {
	return &State{Locals: map[*Cell]Value{}, Heap: map[string]*Term{}, Locks: map[string]int{}, Fresh: map[*Term]bool{}, Written: map[string]bool{}}
}

// ImplSpec synthesizes the contract under which runtime type tname's method is verified against the
// interface contract isp (key "pkg.Iface.Method"): behavioural subtyping, checked not assumed.
func ImplSpec(isp *FuncSpec, key, tname string) *FuncSpec {
	c := *isp
	c.Name = key + "@" + tname
	c.Iface = false
	c.Verify = true
	c.ImplOf = isp
	c.ImplType = tname
	c.Implementers = nil
	return &c
}

// implFunc resolves the method of the runtime type named tname that implements interface method key.
func (ex *Exec) implFunc(key, tname string) (*ssa.Function, types.Type) {
	i := strings.LastIndex(key, ".")
	mname := key[i+1:]
	for _, t := range tags.byTag {
		if typeName(t) != tname {
			continue
		}
		ms := ex.P.SSA.MethodSets.MethodSet(t)
		for j := 0; j < ms.Len(); j++ {
			if ms.At(j).Obj().Name() == mname {
				return ex.P.SSA.MethodValue(ms.At(j)), t
			}
		}
	}
	return nil, nil
}

// VerifyFunc generates the obligations of one function under contract.
func (ex *Exec) VerifyFunc(sp *FuncSpec) {
	var fn *ssa.Function
	var implT types.Type
	if sp.ImplOf != nil {
		if f := ex.P.FindFunc(sp.ImplType); f != nil && !strings.HasPrefix(sp.ImplType, "*") && strings.Contains(sp.ImplType, "$") {
			fn = f // a closure checked against the contract of a named function type
		} else {
			fn, implT = ex.implFunc(sp.ImplOf.Name, sp.ImplType)
		}
	} else {
		fn = ex.P.FindFunc(sp.Name)
	}
	ex.TopName = sp.Name
	ex.TopSpec = sp
	if fn == nil || fn.Blocks == nil {
		ex.limit(sp.Name + ": function not found in the current tree")
		return
	}
	defer func() {
		if r := recover(); r != nil {
			if te, ok := r.(toolErr); ok {
				ex.limit(fmt.Sprintf("%s: %s", sp.Name, string(te)))
				return
			}
			panic(r)
		}
	}()
	st := newState()
	hi0 := Var("hi0", SInt)
	st.Frontier = hi0
	st.assume(Le(Zero, hi0))
	var args []Value
	verifySeq++
	for i, p := range fn.Params {
		pname := p.Name()
		if pname == "_" || pname == "" {
			pname = fmt.Sprintf("_%d", i)
		}
		v := namedValue(fmt.Sprintf("p%d:%s", verifySeq, pname), p.Type())
		args = append(args, v)
		for _, f := range typeInv(p.Type(), v, hi0) {
			st.assume(f)
		}
	}
	fr := ex.pushFrame(st, fn, args, nil, 0)
	for i, fv := range fn.FreeVars {
		// closures verified as functions: free variables are cells holding unconstrained values
		_ = i
		t := fv.Type().(*types.Pointer).Elem()
		ref := Var(fmt.Sprintf("fv%d:%s", verifySeq, fv.Name()), SInt)
		st.assume(And(Lt(Zero, ref), Le(ref, hi0)))
		fr.Regs[fv] = objPtr(ref, t)
	}
	fr.Spec = sp
	if sp.ImplOf != nil {
		// names of the interface contract: recv = the receiver as an interface value, the interface
		// method's parameter names bound positionally
		fr.Extra = map[string]TV{}
		off := 0
		if implT != nil {
			fr.Extra["recv"] = TV{ex.makeIface(st, args[0], implT), nil}
			off = 1
		}
		if isig := ex.ifaceSig(sp.ImplOf.Name); isig != nil {
			for j := 0; j < isig.Params().Len() && j+off < len(args); j++ {
				if n := isig.Params().At(j).Name(); n != "" && n != "_" {
					fr.Extra[n] = TV{args[j+off], isig.Params().At(j).Type()}
				}
			}
		}
	}
	fr.EntryFull = st.snapshotFull()
	env := ex.funcEnv(st, fr)
	env.lets = sp.Lets
	// a closure: what its contract states about the captured variables was checked at creation
	if own := ex.Specs.Funcs[specName(fn)]; own != nil && len(own.Captures) > 0 && fn.Parent() != nil {
		if why := capturedReassigned(fn); why != "" {
			ex.limit(sp.Name + ": " + why)
			return
		}
		for _, c := range own.Captures {
			st.assume(ex.evalBool(env, c.Expr))
		}
	}
	env.assumeLocks = true
	for _, c := range sp.Requires {
		st.assume(ex.evalBool(env, c.Expr))
	}
	env.assumeLocks = false
	for _, l := range sp.HoldsAtEntry {
		_ = l
	}
	fr.EntryFull = st.snapshotFull()
	fr.Mods = ex.allowedMods(st, fr)
	// events: the call being verified has already happened
	for _, ev := range sp.Events {
		_ = env.eval(ev.Expr) // materialise the ghost class
		for _, loc := range ex.lvalueLocs(env, ev.Expr) {
			for class, srt := range classSorts {
				if class == loc.class && srt.Kind == KArr && srt.Elem == SInt {
					h := st.heapGet(class, srt)
					st.Heap[class] = Store(h, loc.ref, Add(Select(h, loc.ref), One))
				}
			}
		}
	}
	for _, l := range sp.Locals {
		env.setGhostGlobal(l.Name, env.eval(l.Init))
	}
	// termination measure of the function itself (checked at calls into its recursion group)
	for _, d := range sp.Decreases {
		fr.Measure = append(fr.Measure, ex.evalInt(env, d))
	}
	for _, gs := range sp.InitSets {
		var vals []TV
		for _, e := range gs.Exprs {
			vals = append(vals, env.eval(e))
		}
		for i := range gs.Names {
			env.assignGhost(gs, i, vals[i])
		}
	}
	for _, gs := range sp.EntrySets {
		var vals []TV
		for _, e := range gs.Exprs {
			vals = append(vals, env.eval(e))
		}
		for i, n := range gs.Names {
			env.setGhostGlobal(n, vals[i])
		}
	}
	if call, ok := sp.Replay.(*ast.CallExpr); ok {
		for _, a := range call.Args {
			tv := env.eval(a)
			ex.ReplayArgs = append(ex.ReplayArgs, tv)
			isLen := false
			if c2, ok := a.(*ast.CallExpr); ok {
				if id, ok := c2.Fun.(*ast.Ident); ok && id.Name == "len" {
					isLen = true
				}
			}
			ex.ReplayLen = append(ex.ReplayLen, isLen)
		}
		if id, ok := call.Fun.(*ast.Ident); ok {
			ex.ReplayFn = id.Name
		}
		ex.ReplayPkg = pkgOfFn(fn)
	}
	// vacuity guard: the precondition must be satisfiable
	ex.Obls = append(ex.Obls, &Obligation{Name: sp.Name + "#vacuity:requires-satisfiable", Kind: "vacuity", Func: sp.Name, Vacuity: true,
		Q: &Query{Assumes: st.PC.list(), Goal: False}})
	ex.run(st)
	if ex.Returns == 0 && len(ex.ToolLimit) == 0 {
		// every path ended in a panic or a loop back edge: no return reached
		ex.note(sp.Name + ": no return path reached")
	}
}

// capturedReassigned: a 'captures' clause is only meaningful if the captured variables keep the value
// they had when the closure was created: each is a cell of the parent stored to once, never by the closure.
func capturedReassigned(fn *ssa.Function) string {
	parent := fn.Parent()
	for i, fv := range fn.FreeVars {
		for _, b := range fn.Blocks {
			for _, in := range b.Instrs {
				if s, ok := in.(*ssa.Store); ok && s.Addr == fv {
					return "captured variable " + fv.Name() + " is assigned inside the closure"
				}
			}
		}
		for _, b := range parent.Blocks {
			for _, in := range b.Instrs {
				mc, ok := in.(*ssa.MakeClosure)
				if !ok || mc.Fn != fn || i >= len(mc.Bindings) {
					continue
				}
				al, ok := mc.Bindings[i].(*ssa.Alloc)
				if !ok {
					continue // a variable of an enclosing closure: not checked (listed as an abstraction)
				}
				n := 0
				for _, b2 := range parent.Blocks {
					for _, in2 := range b2.Instrs {
						if s, ok := in2.(*ssa.Store); ok && s.Addr == al {
							n++
						}
					}
				}
				if n > 1 {
					return "captured variable " + fv.Name() + " is assigned more than once in " + parent.Name()
				}
			}
		}
	}
	return ""
}

// ifaceSig: signature of interface method "pkg.Iface.Method".
func (ex *Exec) ifaceSig(key string) *types.Signature {
	parts := strings.Split(key, ".")
	if len(parts) != 3 && len(parts) != 2 {
		return nil
	}
	for path, pk := range ex.P.ByPath {
		if filepath.Base(path) != parts[0] {
			continue
		}
		o := pk.Types.Scope().Lookup(parts[1])
		if o == nil {
			return nil
		}
		if len(parts) == 2 {
			// a named function type
			sg, _ := under(o.Type()).(*types.Signature)
			return sg
		}
		it, ok := under(o.Type()).(*types.Interface)
		if !ok {
			return nil
		}
		for i := 0; i < it.NumMethods(); i++ {
			if it.Method(i).Name() == parts[2] {
				return it.Method(i).Type().(*types.Signature)
			}
		}
	}
	return nil
}

// ensure interface satisfaction helper is referenced
var _ = token.NoPos
