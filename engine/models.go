package main

import (
	"fmt"
	"go/token"
	"go/types"
	"strings"

	"golang.org/x/tools/go/ssa"
)

var sortSeq int

type modelFn func(ex *Exec, st *State, fr *Frame, fn *ssa.Function, args []Value, pos token.Pos) Value

var models = map[string]modelFn{}

func init() {
	models["(*sync.Mutex).Lock"] = func(ex *Exec, st *State, fr *Frame, fn *ssa.Function, a []Value, pos token.Pos) Value {
		ex.lockOp(st, fr, a[0], 2, true, pos)
		return TupleV{}
	}
	models["(*sync.Mutex).Unlock"] = func(ex *Exec, st *State, fr *Frame, fn *ssa.Function, a []Value, pos token.Pos) Value {
		ex.lockOp(st, fr, a[0], 2, false, pos)
		return TupleV{}
	}
	models["(*sync.RWMutex).Lock"] = models["(*sync.Mutex).Lock"]
	models["(*sync.RWMutex).Unlock"] = models["(*sync.Mutex).Unlock"]
	models["(*sync.RWMutex).RLock"] = func(ex *Exec, st *State, fr *Frame, fn *ssa.Function, a []Value, pos token.Pos) Value {
		ex.lockOp(st, fr, a[0], 1, true, pos)
		return TupleV{}
	}
	models["(*sync.RWMutex).RUnlock"] = func(ex *Exec, st *State, fr *Frame, fn *ssa.Function, a []Value, pos token.Pos) Value {
		ex.lockOp(st, fr, a[0], 1, false, pos)
		return TupleV{}
	}
	atomicAdd := func(t types.Type) modelFn {
		return func(ex *Exec, st *State, fr *Frame, fn *ssa.Function, a []Value, pos token.Pos) Value {
			p := a[0].(*PtrV)
			old := ex.load(st, p).(Scalar).T
			nv := wrapInt(Add(old, a[1].(Scalar).T), t)
			ex.store(st, p, Scalar{nv}, pos)
			return Scalar{nv}
		}
	}
	models["sync/atomic.AddUint32"] = atomicAdd(types.Typ[types.Uint32])
	models["sync/atomic.AddInt32"] = atomicAdd(types.Typ[types.Int32])
	models["sync/atomic.AddInt64"] = atomicAdd(types.Typ[types.Int64])
	models["sync/atomic.AddUint64"] = atomicAdd(types.Typ[types.Uint64])
	atomicLoad := func(ex *Exec, st *State, fr *Frame, fn *ssa.Function, a []Value, pos token.Pos) Value {
		return ex.load(st, a[0].(*PtrV))
	}
	models["sync/atomic.LoadInt32"] = atomicLoad
	models["sync/atomic.LoadUint32"] = atomicLoad
	models["sync/atomic.LoadInt64"] = atomicLoad
	models["(*sync/atomic.Value).Store"] = func(ex *Exec, st *State, fr *Frame, fn *ssa.Function, a []Value, pos token.Pos) Value {
		ref := ptrTerm(a[0].(*PtrV))
		iv := a[1].(IfaceV)
		ex.emit(st, "safety", ex.srcLabel(fr.Fn, pos, "atomic.Value.Store(nil)"), Neq(iv.Tag, Zero), pos, []string{"C17"})
		ex.checkFrame(st, &PtrV{Root: RObj, Ref: ref, Class: "atomic.Value", RT: a[0].(*PtrV).Elem, Path: []PathElem{{Field: 0}}}, pos)
		st.heapSet("atomic.Value.v@tag", Store(st.heapGet("atomic.Value.v@tag", SArr(SInt, SInt)), ref, iv.Tag))
		st.heapSet("atomic.Value.v@val", Store(st.heapGet("atomic.Value.v@val", SArr(SInt, SInt)), ref, iv.Val))
		return TupleV{}
	}
	models["(*sync/atomic.Value).Load"] = func(ex *Exec, st *State, fr *Frame, fn *ssa.Function, a []Value, pos token.Pos) Value {
		ref := ptrTerm(a[0].(*PtrV))
		iv := IfaceV{Select(st.heapGet("atomic.Value.v@tag", SArr(SInt, SInt)), ref), Select(st.heapGet("atomic.Value.v@val", SArr(SInt, SInt)), ref)}
		ex.assumeInv(st, types.NewInterfaceType(nil, nil), iv)
		return iv
	}
	newErr := func(ex *Exec, st *State, fr *Frame, fn *ssa.Function, a []Value, pos token.Pos) Value {
		ref := ex.alloc(st)
		return IfaceV{IntLit(errTag(ex)), ref}
	}
	models["errors.New"] = newErr
	models["fmt.Errorf"] = newErr
	// sort.Slice(x, less): the elements of x are permuted (an explicit bijection) and afterwards no
	// later element is less than an earlier one. less is evaluated as a pure function of two indices
	// over the permuted slice; it is not given the chance to write anything.
	models["sort.Slice"] = func(ex *Exec, st *State, fr *Frame, fn *ssa.Function, a []Value, pos token.Pos) Value {
		iv, ok := a[0].(IfaceV)
		cl, ok2 := a[1].(*ClosureV)
		var slT types.Type
		if ok && iv.Tag.IsInt() {
			slT = tags.byTag[iv.Tag.Int.Int64()]
		}
		sl, ok3 := under(slT).(*types.Slice)
		if !ok || !ok2 || slT == nil || !ok3 || len(comps(sl.Elem())) != 1 {
			ex.unknownCall(st, fr, "sort.Slice on an unsupported argument", fn.Signature, a, nil, true)
			return TupleV{}
		}
		ex.note("sort.Slice modelled as a sorted permutation in " + specName(fr.Fn))
		sv := ex.unbox(st, iv, slT).(SliceV)
		et := sl.Elem()
		cp := comps(et)[0]
		if !st.Fresh[sv.Arr] {
			ex.checkFrameElem(st, &PtrV{Root: RElem, Arr: sv.Arr, Idx: sv.Off, Elem: et}, pos, Lt(Zero, sv.Len))
		}
		cls := "[]" + typeName(et) + cp.Suffix
		h := st.heapGet(cls, heapSort(2, cp.Sort))
		nh := Fresh("H:"+cls, h.Sort)
		sortSeq++
		// the permutation and its inverse as arrays (visible to contracts as the ghost maps $sortFrom / $sortTo)
		piA := Fresh("perm", SArr(SInt, SInt))
		ipA := Fresh("perminv", SArr(SInt, SInt))
		pi := func(t *Term) *Term { return Select(piA, t) }
		ip := func(t *Term) *Term { return Select(ipA, t) }
		if ex.Specs.GhostVars["sortFrom"] == "imap" && ex.Specs.GhostVars["sortTo"] == "imap" {
			hf := st.heapGet("G:$sortFrom[]", SArr(SInt, SArr(SInt, SInt)))
			st.Heap["G:$sortFrom[]"] = Store(hf, Zero, piA)
			ht := st.heapGet("G:$sortTo[]", SArr(SInt, SArr(SInt, SInt)))
			st.Heap["G:$sortTo[]"] = Store(ht, Zero, ipA)
		}
		k := Fresh("k", SInt)
		ar := Fresh("a", SInt)
		in := func(t *Term) *Term { return And(Le(Zero, t), Lt(t, sv.Len)) }
		st.assume(Forall([]*Term{ar}, Implies(Neq(ar, sv.Arr), Eq(Select(nh, ar), Select(h, ar)))))
		st.assume(Forall([]*Term{k}, Implies(Or(Lt(k, sv.Off), Le(Add(sv.Off, sv.Len), k)), Eq(Select(Select(nh, sv.Arr), k), Select(Select(h, sv.Arr), k)))))
		st.assume(ForallPat([]*Term{k}, Implies(in(k), And(in(pi(k)), Eq(Select(Select(nh, sv.Arr), Add(sv.Off, k)), Select(Select(h, sv.Arr), Add(sv.Off, pi(k)))), Eq(ip(pi(k)), k))),
			[]*Term{Select(Select(nh, sv.Arr), Add(sv.Off, k))}, []*Term{pi(k)}))
		st.assume(ForallPat([]*Term{k}, Implies(in(k), And(in(ip(k)), Eq(pi(ip(k)), k))), []*Term{ip(k)}))
		// the same fact keyed by the absolute index, for goals that read the sorted slice at an arbitrary index
		j := Fresh("k", SInt)
		rel := Sub(j, sv.Off)
		st.assume(ForallPat([]*Term{j}, Implies(And(Le(sv.Off, j), Lt(j, Add(sv.Off, sv.Len))),
			And(in(pi(rel)), Eq(Select(Select(nh, sv.Arr), j), Select(Select(h, sv.Arr), Add(sv.Off, pi(rel)))), Eq(ip(pi(rel)), rel))),
			[]*Term{Select(Select(nh, sv.Arr), j)}))
		st.heapSet(cls, nh)
		// sortedness over the permuted slice
		qi, qj := Fresh("q_si", SInt), Fresh("q_sj", SInt)
		res := ex.evalPureFn(st, cl.Fn, []Value{Scalar{qj}, Scalar{qi}}, cl.Bind...)
		if r, ok := res.(Scalar); ok && r.T.Sort == SBool {
			st.assume(Forall([]*Term{qi, qj}, Implies(And(Le(Zero, qi), Lt(qi, qj), Lt(qj, sv.Len)), Not(r.T))))
		}
		return TupleV{}
	}
	models["math/rand.Intn"] = func(ex *Exec, st *State, fr *Frame, fn *ssa.Function, a []Value, pos token.Pos) Value {
		n := a[0].(Scalar).T
		ex.emit(st, "safety", ex.srcLabel(fr.Fn, pos, "rand.Intn"), Lt(Zero, n), pos, []string{"C17"})
		r := Fresh("rand", SInt)
		st.assume(And(Le(Zero, r), Lt(r, n)))
		return Scalar{r}
	}
	models["math/bits.LeadingZeros64"] = func(ex *Exec, st *State, fr *Frame, fn *ssa.Function, a []Value, pos token.Pos) Value {
		x := a[0].(Scalar).T
		r := UF("bits.LeadingZeros64", SInt, x)
		var alts []*Term
		alts = append(alts, And(Eq(x, Zero), Eq(r, IntLit(64))))
		for k := uint(0); k < 64; k++ {
			alts = append(alts, And(Eq(r, IntLit(int64(63-k))), Le(BigLit(pow2(k)), x), Lt(x, BigLit(pow2(k+1)))))
		}
		st.assume(Or(alts...))
		return Scalar{r}
	}
	models["time.Now"] = func(ex *Exec, st *State, fr *Frame, fn *ssa.Function, a []Value, pos token.Pos) Value {
		v := freshValue("now", fn.Signature.Results().At(0).Type())
		return v
	}
}

var errTagMemo int64

func errTag(ex *Exec) int64 {
	if errTagMemo != 0 {
		return errTagMemo
	}
	for id, t := range tags.byTag {
		if typeKey(t) == "*errors.errorString" {
			errTagMemo = id
			return id
		}
	}
	// not a runtime type in this program: invent one
	errTagMemo = int64(len(tags.byKey) + 1)
	tags.byKey["*errors.errorString"] = errTagMemo
	return errTagMemo
}

var purePkgs = []string{"strings.", "strconv.", "unicode.", "unicode/utf8.", "encoding/hex.", "go.uber.org/zap.", "go.uber.org/zap/zapcore.",
	"reflect.TypeOf", "crypto/md5.Sum", "(encoding/binary.bigEndian).Uint", "(encoding/binary.littleEndian).Uint", "bytes.Compare", "bytes.Equal", "fmt.Sprintf", "fmt.Sprint", "math/bits.", "path.", "net.ParseIP", "time.Since", "time.Until",
	"(time.Duration).", "(time.Time).", "sort.SearchInts", "errors.Is", "errors.Unwrap", "(net.IP).String", "(net.IP).To4", "(net.IP).To16", "(net.IP).Equal", "(*net.IPAddr).String",
	"(github.com/datastax/go-cassandra-native-protocol/primitive.ProtocolVersion).", "(github.com/datastax/go-cassandra-native-protocol/primitive.ConsistencyLevel).",
	"(github.com/datastax/go-cassandra-native-protocol/primitive.OpCode).", "(github.com/datastax/go-cassandra-native-protocol/primitive.ErrorCode)."}

var noEffect = []string{"(*go.uber.org/zap.Logger).Debug", "(*go.uber.org/zap.Logger).Info", "(*go.uber.org/zap.Logger).Warn", "(*go.uber.org/zap.Logger).Error",
	"(*go.uber.org/zap.Logger).Fatal", "(*go.uber.org/zap.Logger).Sugar", "(*go.uber.org/zap.SugaredLogger).", "(*go.uber.org/zap.Logger).Check", "(*go.uber.org/zap.Logger).Named", "(*go.uber.org/zap.Logger).With"}

// modelByPattern handles side-effect-free library functions as (deterministic) uninterpreted functions.
func (ex *Exec) modelByPattern(st *State, fr *Frame, fn *ssa.Function, full string, args []Value, pos token.Pos) (Value, bool) {
	match := false
	nondet := false
	for _, p := range noEffect {
		if strings.HasPrefix(full, p) {
			match, nondet = true, true
		}
	}
	if !match {
		for _, p := range purePkgs {
			if strings.HasPrefix(full, p) {
				match = true
			}
		}
	}
	if !match {
		return nil, false
	}
	if fn.Blocks != nil && ex.inRepo(fn) {
		return nil, false
	}
	rt := resultType(fn.Signature)
	cs := comps(rt)
	if len(cs) == 0 {
		return TupleV{}, true
	}
	var flat []*Term
	for i, a := range args {
		switch x := a.(type) {
		case SliceV:
			var pt types.Type
			if i < len(fn.Params) {
				pt = fn.Params[i].Type()
			}
			if sl, ok := under(pt).(*types.Slice); ok && pt != nil && !isStructT(sl.Elem()) && len(comps(sl.Elem())) == 1 && comps(sl.Elem())[0].Sort == SInt {
				flat = append(flat, Select(st.heapGet("[]"+typeName(sl.Elem()), heapSort(2, SInt)), x.Arr), x.Off, x.Len)
			} else {
				nondet = true
			}
		case *ClosureV, FuncV, BoundV:
			nondet = true
		default:
			flat = append(flat, flatten(a)...)
		}
	}
	ts := make([]*Term, len(cs))
	for i, c := range cs {
		if nondet {
			ts[i] = Fresh("ext:"+fn.Name()+c.Suffix, c.Sort)
		} else {
			ts[i] = UF("ext:"+full+c.Suffix, c.Sort, flat...)
		}
	}
	v, _ := unflatten(rt, ts)
	ex.assumeInv(st, rt, v)
	// pointer results of pure library constructors are non-nil fresh-or-existing objects: unknown
	_ = fmt.Sprint
	return v, true
}

// ---------- locks (monitor discipline, DESIGN §5.1) ----------

func lockKey(tv TV) string {
	switch v := tv.V.(type) {
	case *PtrV:
		return ptrTerm(v).String()
	case Scalar:
		return v.T.String()
	}
	return "?"
}

func (ex *Exec) lockOp(st *State, fr *Frame, recv Value, mode int, acquire bool, pos token.Pos) {
	p, ok := recv.(*PtrV)
	if !ok {
		tool("lock receiver is %T", recv)
	}
	key := ptrTerm(p).String()
	cur := st.Locks[key]
	if acquire {
		// re-acquiring a held non-reentrant lock deadlocks
		ex.emit(st, "lock", ex.srcLabel(fr.Fn, pos, "acquire-not-held"), BoolLit(cur == 0), pos, []string{"C18", "C01"})
		st.Locks[key] = mode
		ex.monitorEnter(st, fr, p, mode, pos)
		if owner, tn, mu, ok := ex.monitorOwner(p); ok {
			st.Held = append(st.Held, heldMon{owner, tn, mu, key})
		}
		return
	}
	ex.emit(st, "lock", ex.srcLabel(fr.Fn, pos, "release-held"), BoolLit(cur == mode), pos, []string{"C18"})
	ex.monitorExit(st, fr, p, mode, pos)
	st.Locks[key] = 0
	var keep []heldMon
	for _, h := range st.Held {
		if h.Key != key {
			keep = append(keep, h)
		}
	}
	st.Held = keep
}

// guardedFieldsOf finds, for a mutex pointer that is field mu of an object of a type with a type
// block, the guarded fields. Mutex by value: ref = fld:T.mu(owner). Mutex by pointer: loaded from
// owner.mu, so the owner is recovered from the select term.
func (ex *Exec) monitorOwner(p *PtrV) (owner *Term, tn string, mu string, ok bool) {
	t := ptrTerm(p)
	if t.Op == "uf" && strings.HasPrefix(t.Name, "fld:") {
		rest := strings.TrimPrefix(t.Name, "fld:")
		i := strings.LastIndex(rest, ".")
		return t.Args[0], rest[:i], rest[i+1:], true
	}
	if t.Op == "select" && t.Args[0].Op == "var" && strings.HasPrefix(t.Args[0].Name, "H:") {
		cls := strings.TrimPrefix(t.Args[0].Name, "H:")
		if j := strings.Index(cls, "!"); j >= 0 {
			cls = cls[:j]
		}
		i := strings.LastIndex(cls, ".")
		if i > 0 {
			return t.Args[1], cls[:i], cls[i+1:], true
		}
	}
	return nil, "", "", false
}

func (ex *Exec) monitorEnter(st *State, fr *Frame, p *PtrV, mode int, pos token.Pos) {
	owner, tn, mu, ok := ex.monitorOwner(p)
	if !ok {
		return
	}
	ts := ex.Specs.Types[tn]
	if ts == nil {
		return
	}
	// other threads may have changed the guarded fields while the lock was free
	for f, m := range ts.Guarded {
		if m != mu {
			continue
		}
		if !ts.Immutable[f] {
			for class := range classSorts {
				if class == tn+"."+f || strings.HasPrefix(class, tn+"."+f+"@") || strings.HasPrefix(class, tn+"."+f+".") {
					h := st.heapGet(class, classSorts[class])
					if h.Sort.Kind == KArr && h.Sort.Idx == SInt {
						st.heapSet(class, Store(h, owner, Fresh("mon:"+class, h.Sort.Elem)))
					}
				}
			}
		}
		// a guarded map field: the lock guards the map's contents
		if ft := ex.fieldTypeByName(tn, f); ft != nil {
			if _, isMap := under(ft).(*types.Map); isMap {
				mref := Select(st.heapGet(tn+"."+f, SArr(SInt, SInt)), owner)
				for class, srt := range classSorts {
					if strings.HasPrefix(class, mapClass(ft)+"#") && srt.Kind == KArr && srt.Idx == SInt {
						h := st.heapGet(class, srt)
						st.heapSet(class, Store(h, mref, Fresh("mon:"+class, srt.Elem)))
					}
				}
			}
		}
	}
	ex.assumeTypeInvariant(st, fr, ts, owner, tn)
}

// restoreHeld: after a havoc caused by a callee that does not re-enter the caller's monitors, the
// fields guarded by locks this thread holds still have their values (nobody else may write them).
func (ex *Exec) restoreHeld(st *State, before map[string]*Term) {
	for _, h := range st.Held {
		ts := ex.Specs.Types[h.Type]
		if ts == nil {
			continue
		}
		for f, m := range ts.Guarded {
			if m != h.Mu {
				continue
			}
			for class, oldH := range before {
				if class == h.Type+"."+f || strings.HasPrefix(class, h.Type+"."+f+"@") || strings.HasPrefix(class, h.Type+"."+f+".") {
					cur := st.heapGet(class, oldH.Sort)
					if cur != oldH && oldH.Sort.Kind == KArr && oldH.Sort.Idx == SInt {
						st.Heap[class] = Store(cur, h.Owner, Select(oldH, h.Owner))
					}
				}
			}
		}
	}
}

func (ex *Exec) fieldTypeByName(tn, f string) types.Type {
	parts := strings.SplitN(tn, ".", 2)
	if len(parts) != 2 {
		return nil
	}
	for _, pk := range ex.P.ByPath {
		if pk.Types.Name() == parts[0] {
			if o := pk.Types.Scope().Lookup(parts[1]); o != nil {
				if st, ok := under(o.Type()).(*types.Struct); ok {
					for i := 0; i < st.NumFields(); i++ {
						if st.Field(i).Name() == f {
							return st.Field(i).Type()
						}
					}
				}
			}
		}
	}
	return nil
}

func (ex *Exec) assumeTypeInvariant(st *State, fr *Frame, ts *TypeSpec, owner *Term, tn string) {
	if len(ts.Invariant) == 0 && len(ts.AssumedInv) == 0 {
		return
	}
	env := ex.typeEnv(st, fr, tn, owner)
	if env == nil {
		return
	}
	for _, c := range ts.Invariant {
		st.assume(ex.evalBool(env, c.Expr))
	}
	for _, c := range ts.AssumedInv {
		st.assume(ex.evalBool(env, c.Expr))
		ex.Assumed["type "+tn+": "+c.Text] = true
	}
}

func (ex *Exec) typeEnv(st *State, fr *Frame, tn string, owner *Term) *SpecEnv {
	parts := strings.SplitN(tn, ".", 2)
	if len(parts) != 2 {
		return nil
	}
	for _, pk := range ex.P.ByPath {
		if pk.Types.Name() == parts[0] {
			if o := pk.Types.Scope().Lookup(parts[1]); o != nil {
				t := o.Type()
				env := &SpecEnv{ex: ex, st: st, vars: map[string]TV{}, fn: fr.Fn, pkg: pk.Types}
				env.vars["self"] = TV{objPtr(owner, t), types.NewPointer(t)}
				return env
			}
		}
	}
	return nil
}

func (ex *Exec) monitorExit(st *State, fr *Frame, p *PtrV, mode int, pos token.Pos) {
	owner, tn, _, ok := ex.monitorOwner(p)
	if !ok {
		return
	}
	ts := ex.Specs.Types[tn]
	if ts == nil || len(ts.Invariant) == 0 {
		return
	}
	env := ex.typeEnv(st, fr, tn, owner)
	if env == nil {
		return
	}
	for i, c := range ts.Invariant {
		ex.emit(st, "monitor", fmt.Sprintf("%s:%s@unlock", tn, clauseLabel(c, i)), ex.evalBool(env, c.Expr), pos, mergeProps(ts.Props, c.Props))
	}
}

// guarded field access checks
func (ex *Exec) guardOf(p *PtrV) (ts *TypeSpec, mu string, field string) {
	if p.Root != RObj || len(p.Path) == 0 || p.Path[0].Field < 0 {
		return nil, "", ""
	}
	ts = ex.Specs.Types[p.Class]
	if ts == nil {
		return nil, "", ""
	}
	f := fieldName(p.RT, p.Path[0].Field)
	if m, ok := ts.Guarded[f]; ok {
		return ts, m, f
	}
	return nil, "", ""
}

func (ex *Exec) lockHeldOn(st *State, p *PtrV, mu string) int {
	// mutex by value
	k1 := fldRef(p.Class, mu, p.Ref).String()
	if v := st.Locks[k1]; v > 0 {
		return v
	}
	// mutex by pointer: any held lock whose term is select(H:Class.mu..., ref)
	for k, v := range st.Locks {
		if v > 0 && strings.Contains(k, "(select") && strings.Contains(k, "H:"+p.Class+"."+mu) && strings.HasSuffix(k, " "+p.Ref.String()+")") {
			return v
		}
	}
	return 0
}

func (ex *Exec) checkGuardedRead(st *State, fr *Frame, p *PtrV, pos token.Pos) {
	ts, mu, f := ex.guardOf(p)
	if ts == nil || st.Fresh[p.Ref] {
		return
	}
	ex.emit(st, "lock", fmt.Sprintf("read:%s.%s", p.Class, f), BoolLit(ex.lockHeldOn(st, p, mu) >= 1), pos, mergeProps(ts.Props, []string{"C18"}))
}

func (ex *Exec) checkGuardedWrite(st *State, fr *Frame, p *PtrV, pos token.Pos) {
	ts, mu, f := ex.guardOf(p)
	if ts == nil || st.Fresh[p.Ref] {
		return
	}
	ex.emit(st, "lock", fmt.Sprintf("write:%s.%s", p.Class, f), BoolLit(ex.lockHeldOn(st, p, mu) == 2), pos, mergeProps(ts.Props, []string{"C18"}))
}

// checkGuardedMapWrite: the map value was loaded from a guarded field; writing the map needs the exclusive lock.
func (ex *Exec) checkGuardedMapWrite(st *State, fr *Frame, m ssa.Value, pos token.Pos) {
	u, ok := m.(*ssa.UnOp)
	if !ok || u.Op != token.MUL {
		return
	}
	fa, ok := u.X.(*ssa.FieldAddr)
	if !ok {
		return
	}
	base, ok := fr.Regs[fa.X]
	if !ok {
		return
	}
	bp, ok := base.(*PtrV)
	if !ok || bp.Root != RObj || len(bp.Path) != 0 {
		return
	}
	p := &PtrV{Root: RObj, Ref: bp.Ref, Class: bp.Class, RT: bp.Elem, Path: []PathElem{{Field: fa.Field}}}
	ts, mu, f := ex.guardOf(p)
	if ts == nil || st.Fresh[p.Ref] {
		return
	}
	ex.emit(st, "lock", fmt.Sprintf("mapwrite:%s.%s", p.Class, f), BoolLit(ex.lockHeldOn(st, p, mu) == 2), pos, mergeProps(ts.Props, []string{"C18"}))
}
