package main

import (
	"fmt"
	"os"
)

func main() {
	if len(os.Args) < 2 {
		fmt.Fprintln(os.Stderr, "usage: vcgo dump|check|replay|selftest ...")
		os.Exit(2)
	}
	switch os.Args[1] {
	case "dump":
		cmdDump(os.Args[2:])
	case "replay":
		cmdReplay(os.Args[2:])
	case "sweep":
		cmdSweep(os.Args[2:])
	case "check":
		cmdCheck(os.Args[2:])
	default:
		fmt.Fprintln(os.Stderr, "unknown command", os.Args[1])
		os.Exit(2)
	}
}
