package main

import (
	"bytes"
	"context"
	"encoding/json"
	"fmt"
	"math/big"
	"os"
	"os/exec"
	"path/filepath"
	"strconv"
	"strings"
	"time"
)

// modelValues asks the solver that answered sat for the values of the given terms under the same query.
func modelValues(q *Query, solverName, dir, tag string, terms []*Term, timeoutMs int) map[*Term]string {
	q2 := &Query{Assumes: q.Assumes, Goal: q.Goal, Values: terms}
	text, ok := q2.smtText(true, "")
	if !ok {
		return nil
	}
	var sp solverSpec
	for _, s := range solvers {
		if s.name == solverName {
			sp = s
		}
	}
	if sp.name == "" {
		sp = solvers[0]
	}
	st, out, _ := runSolver(sp, text, dir, tag, timeoutMs)
	if st != "sat" {
		return nil
	}
	// answers come in the order of the get-value commands
	res := map[*Term]string{}
	vals := parseValueList(out)
	for i, t := range terms {
		if i < len(vals) {
			res[t] = vals[i]
		}
	}
	return res
}

// parseValueList returns the value part of each "((term value))" answer, in order.
func parseValueList(out string) []string {
	var vals []string
	lines := strings.Split(out, "\n")
	var cur strings.Builder
	depth := 0
	for _, l := range lines[1:] {
		for _, c := range l {
			if c == '(' {
				depth++
			} else if c == ')' {
				depth--
			}
		}
		cur.WriteString(l)
		cur.WriteString(" ")
		if depth == 0 {
			s := strings.TrimSpace(cur.String())
			cur.Reset()
			if strings.HasPrefix(s, "((") && strings.HasSuffix(s, "))") {
				s = s[2 : len(s)-2]
				i := sexprEnd(s)
				if i > 0 && i <= len(s) {
					vals = append(vals, strings.TrimSpace(s[i:]))
				}
			}
		}
	}
	return vals
}

// goLiteral renders a model value as Go source for the given type.
func goLiteral(q *Query, solver, dir string, tv TV, timeoutMs int) (string, error) {
	t := tv.T
	switch v := tv.V.(type) {
	case Scalar:
		switch v.T.Sort {
		case SBool:
			m := modelValues(q, solver, dir, "rv", []*Term{v.T}, timeoutMs)
			if m == nil {
				return "", fmt.Errorf("no model value")
			}
			return m[v.T], nil
		case SInt:
			m := modelValues(q, solver, dir, "rv", []*Term{v.T}, timeoutMs)
			if m == nil {
				return "", fmt.Errorf("no model value")
			}
			n, ok := modelInt(m[v.T])
			if !ok {
				return "", fmt.Errorf("unparsable model value %q", m[v.T])
			}
			_ = t
			return n.String(), nil // untyped constant: converts to the builder's parameter type
		case SStr:
			if lit, ok := strLitOf[v.T]; ok {
				return strconv.Quote(lit), nil
			}
			l := UF("slen", SInt, v.T)
			m := modelValues(q, solver, dir, "rv", []*Term{l}, timeoutMs)
			if m == nil {
				return "", fmt.Errorf("no model value")
			}
			n, ok := modelInt(m[l])
			if !ok || n.Sign() < 0 {
				return "", fmt.Errorf("bad string length %q", m[l])
			}
			if n.Cmp(big.NewInt(1<<20)) > 0 {
				return "", fmt.Errorf("model string too long (%s bytes)", n)
			}
			ln := int(n.Int64())
			var cs []*Term
			for i := 0; i < ln; i++ {
				cs = append(cs, UF("sat", SInt, v.T, IntLit(int64(i))))
			}
			buf := make([]byte, ln)
			if ln > 0 {
				m2 := modelValues(q, solver, dir, "rv", append([]*Term{l}, cs...), timeoutMs)
				if m2 == nil {
					return "", fmt.Errorf("no model value for characters")
				}
				for i, c := range cs {
					cv, ok := modelInt(m2[c])
					if !ok {
						return "", fmt.Errorf("bad char value")
					}
					buf[i] = byte(cv.Int64() & 0xff)
				}
			}
			return strconv.Quote(string(buf)), nil
		}
	}
	return "", fmt.Errorf("unsupported replay argument of type %T", tv.V)
}

// tryReplay turns a solver model into a Go test that calls the contract's replay builder on the
// model's inputs, and runs it against the real code (go test -overlay, nothing written to the repo).
func tryReplay(cr *checkRun, o *Obligation) (bool, string, string) {
	if o.ReplayFn == "" || o.ReplayPkg == nil {
		return false, "", "no replay builder declared for this function"
	}
	// model minimisation: prefer counterexamples with small lengths (and small strings)
	q := o.Q
	// strings: prefer one of the literals the code compares against
	{
		all := append(append([]*Term{}, o.Q.Assumes...), o.Q.Goal)
		vars, _, _ := collectDecls(all)
		var extra []*Term
		for _, a := range o.ReplayArgs {
			if s, ok := a.V.(Scalar); ok && s.T.Sort == SStr {
				var alts []*Term
				for _, v := range vars {
					if strings.HasPrefix(v, "strlit!") {
						alts = append(alts, Eq(s.T, Var(v, SStr)))
					}
				}
				if len(alts) > 0 {
					extra = append(extra, Or(alts...))
				}
			}
		}
		if len(extra) > 0 {
			q2 := &Query{Assumes: append(append([]*Term{}, o.Q.Assumes...), extra...), Goal: o.Q.Goal}
			if text, ok := q2.smtText(false, ""); ok {
				if st, _, _ := runSolver(solvers[0], text, cr.smtDir, "minlit", cr.timeoutMs); st == "sat" {
					o = &Obligation{Name: o.Name, Q: q2, Res: &SolveResult{Solver: solvers[0].name}, ReplayArgs: o.ReplayArgs, ReplayLen: o.ReplayLen, ReplayFn: o.ReplayFn, ReplayPkg: o.ReplayPkg}
					q = q2
				}
			}
		}
	}
	for _, bound := range []int64{4, 16, 256} {
		var extra []*Term
		for i, a := range o.ReplayArgs {
			if s, ok := a.V.(Scalar); ok {
				if s.T.Sort == SInt && i < len(o.ReplayLen) && o.ReplayLen[i] {
					extra = append(extra, Le(s.T, IntLit(bound)))
				}
				if s.T.Sort == SStr {
					extra = append(extra, Le(UF("slen", SInt, s.T), IntLit(bound)))
				}
			}
		}
		if len(extra) == 0 {
			break
		}
		q2 := &Query{Assumes: append(append([]*Term{}, o.Q.Assumes...), extra...), Goal: o.Q.Goal}
		if text, ok := q2.smtText(false, ""); ok {
			var sp solverSpec
			for _, s := range solvers {
				if s.name == o.Res.Solver {
					sp = s
				}
			}
			if sp.name == "" {
				sp = solvers[0]
			}
			if st, _, _ := runSolver(sp, text, cr.smtDir, "min", cr.timeoutMs); st == "sat" {
				q = q2
				break
			}
		}
	}
	var args []string
	for _, a := range o.ReplayArgs {
		lit, err := goLiteral(q, o.Res.Solver, cr.smtDir, a, cr.timeoutMs)
		if err != nil {
			return false, "", "cannot build inputs from the model: " + err.Error()
		}
		args = append(args, lit)
	}
	pkgName := o.ReplayPkg.Name()
	test := fmt.Sprintf("//go:build verif\n\npackage %s\n\nimport \"testing\"\n\n// generated by vcgo from the solver's counterexample for %s\nfunc TestVerifReplay(t *testing.T) {\n\tif err := %s(%s); err != nil {\n\t\tt.Fatal(err)\n\t}\n}\n",
		pkgName, o.Name, o.ReplayFn, strings.Join(args, ", "))
	ok, out := runReplayTest(cr.prog.RepoDir, cr.prog.Scratch, o.ReplayPkg.Path(), cr.prog.ModPath, test)
	return ok, test, out
}

// runReplayTest returns true when the test FAILS (the violation reproduces on the real code).
func runReplayTest(repo, scratch, pkgPath, modPath, test string) (bool, string) {
	rel := strings.TrimPrefix(strings.TrimPrefix(pkgPath, modPath), "/")
	tf := filepath.Join(scratch, "zz_verif_replay_test.go")
	if err := os.WriteFile(tf, []byte(test), 0644); err != nil {
		return false, err.Error()
	}
	ov := map[string]map[string]string{"Replace": {filepath.Join(repo, rel, "zz_verif_replay_test.go"): tf}}
	ob, _ := json.Marshal(ov)
	of := filepath.Join(scratch, "overlay.json")
	os.WriteFile(of, ob, 0644)
	if _, err := os.Stat(filepath.Join(scratch, "repo.mod")); err != nil {
		copyFile(filepath.Join(repo, "go.mod"), filepath.Join(scratch, "repo.mod"))
		copyFile(filepath.Join(repo, "go.sum"), filepath.Join(scratch, "repo.sum"))
	}
	ctx, cancel := context.WithTimeout(context.Background(), 180*time.Second)
	defer cancel()
	cmd := exec.CommandContext(ctx, "go", "test", "-tags", "verif", "-modfile="+filepath.Join(scratch, "repo.mod"), "-overlay", of, "-vet=off", "-count=1", "-timeout", "60s", "-run", "^TestVerifReplay$", "./"+rel)
	cmd.Dir = repo
	cmd.Env = goEnv(scratch)
	var buf bytes.Buffer
	cmd.Stdout = &buf
	cmd.Stderr = &buf
	err := cmd.Run()
	out := buf.String()
	if len(out) > 6000 {
		out = out[:6000] + "…"
	}
	failed := err != nil && (strings.Contains(out, "--- FAIL") || strings.Contains(out, "panic:") || strings.Contains(out, "fatal error:"))
	return failed, out
}

// cmdReplay re-runs the generated test stored in a replay file.
func cmdReplay(args []string) {
	if len(args) != 1 {
		fmt.Fprintln(os.Stderr, "usage: vcgo replay <file>")
		os.Exit(2)
	}
	var rec map[string]interface{}
	if err := loadJSON(args[0], &rec); err != nil {
		fmt.Fprintln(os.Stderr, err)
		os.Exit(2)
	}
	fmt.Printf("obligation: %v\nreason: %v\n", rec["obligation"], rec["reason"])
	test, _ := rec["replay_test"].(string)
	if test == "" {
		fmt.Println("no failing input was constructed for this obligation; solver output follows")
		fmt.Println(rec["solver_output"])
		os.Exit(1)
	}
	pkg, _ := rec["replay_pkg"].(string)
	scratch, _ := makeScratch()
	defer os.RemoveAll(scratch)
	repo := repoDir()
	mod, _ := rec["module"].(string)
	failed, out := runReplayTest(repo, scratch, pkg, mod, test)
	fmt.Println(out)
	if failed {
		fmt.Println("REPRODUCED: the real code violates the obligation on the recorded input")
		os.Exit(1)
	}
	fmt.Println("not reproduced on the current tree")
}
