package main

// tryReplay turns a solver model into a Go test against the real function. Filled in below.
func tryReplay(cr *checkRun, o *Obligation) (bool, string, string) {
	return false, "", "replay not available for this obligation"
}
