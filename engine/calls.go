package main

import (
	"fmt"
	"go/token"
	"go/types"
	"strings"

	"golang.org/x/tools/go/ssa"
)

// doCall evaluates a call instruction. It may push a frame (inlining).
func (ex *Exec) doCall(st *State, fr *Frame, c *ssa.CallCommon, dst ssa.Value, pos token.Pos, work *[]*State) {
	var args []Value
	for _, a := range c.Args {
		args = append(args, ex.val(st, fr, a))
	}
	fnv := ex.val(st, fr, c.Value)
	ex.curCallArgs = args
	ex.curCallTypes = nil
	for _, a := range c.Args {
		ex.curCallTypes = append(ex.curCallTypes, a.Type())
	}
	ex.curCallRecv = nil
	if c.IsInvoke() {
		ex.curCallRecv = fnv
	} else if _, isScalar := fnv.(Scalar); isScalar && c.StaticCallee() == nil {
		// a call through a function value of a named function type (context.CancelFunc): hooks name the
		// type, and 'recv' is the function value that is called
		ex.curCallRecv = fnv
	}
	gsAfter := ex.ghostSets(st, fr, c, "before")
	pushed := ex.callValue(st, fr, c, fnv, args, dst, pos, false, work)
	if len(gsAfter) > 0 {
		if pushed {
			tool("ghost 'after' assignment at a call that is inlined (give the callee a contract)")
		}
		if !st.Dead {
			var res Value
			if dst != nil {
				res = fr.Regs[dst]
			}
			ex.runGhostSetsRes(st, fr, gsAfter, c.Signature(), res)
		}
	}
}

// ghostSets runs the 'before' assignments for this call and returns the pending 'after' ones.
func (ex *Exec) ghostSets(st *State, fr *Frame, c *ssa.CallCommon, when string) []*GhostSet {
	sp := ex.Specs.Funcs[specName(fr.Fn)]
	// a closure without a contract of its own that runs inlined (a deferred function, typically) is part
	// of its enclosing function's body: that function's hooks see its calls too
	for f := fr.Fn; sp == nil && f.Parent() != nil; {
		f = f.Parent()
		sp = ex.Specs.Funcs[specName(f)]
	}
	// likewise a named function without a contract that is inlined: its calls belong to the function being verified
	if sp == nil {
		if top := ex.topFrame(st); top != nil && top.Spec != nil && top != fr {
			sp = top.Spec
		}
	}
	if sp == nil || len(sp.GhostSets) == 0 {
		return nil
	}
	callee := ""
	if c.IsInvoke() {
		callee = typeName(c.Value.Type()) + "." + c.Method.Name()
	} else if f := c.StaticCallee(); f != nil {
		callee = specName(f)
	} else if _, named := c.Value.Type().(*types.Named); named {
		callee = typeName(c.Value.Type())
	}
	if callee == "" {
		return nil
	}
	if fr.CallCount == nil {
		fr.CallCount = map[string]int{}
	}
	fr.CallCount[callee]++
	var before, after []*GhostSet
	for _, gs := range sp.GhostSets {
		if gs.Callee == callee && (gs.Ord == 0 || gs.Ord == fr.CallCount[callee]) {
			if gs.When == "before" {
				before = append(before, gs)
			} else {
				after = append(after, gs)
			}
		}
	}
	ex.runGhostSets(st, fr, before)
	return after
}

func (ex *Exec) runGhostSets(st *State, fr *Frame, sets []*GhostSet) {
	ex.runGhostSetsRes(st, fr, sets, nil, nil)
}

// runGhostSetsRes: 'after' assignments may refer to the callee's results as result / result0.. / named results.
func (ex *Exec) runGhostSetsRes(st *State, fr *Frame, sets []*GhostSet, sig *types.Signature, res Value) {
	for _, gs := range sets {
		env := ex.loopEnv(st, fr)
		if sig != nil && res != nil {
			env.bindResults(sig, res)
		}
		for i, a := range ex.curCallArgs {
			var at types.Type
			if i < len(ex.curCallTypes) {
				at = ex.curCallTypes[i]
			}
			env.vars[fmt.Sprintf("arg%d", i)] = TV{a, at}
		}
		if ex.curCallRecv != nil {
			env.vars["recv"] = TV{ex.curCallRecv, nil}
		}
		// a hook written for a call inside a range loop also fires at calls of the same callee elsewhere:
		// there is no loop index then, and rangeindex reads -1
		if _, ok := env.vars["rangeindex"]; !ok {
			env.vars["rangeindex"] = TV{Scalar{IntLit(-1)}, types.Typ[types.Int]}
		}
		var vals []TV
		for _, e := range gs.Exprs {
			vals = append(vals, env.eval(e))
		}
		for i, n := range gs.Names {
			_ = n
			env.assignGhost(gs, i, vals[i])
		}
	}
}

func resultType(sig *types.Signature) types.Type {
	switch sig.Results().Len() {
	case 0:
		return types.NewTuple()
	case 1:
		return sig.Results().At(0).Type()
	}
	return sig.Results()
}

// callValue performs the call. Returns true when a frame was pushed (the result arrives on return).
func (ex *Exec) callValue(st *State, fr *Frame, c *ssa.CallCommon, fnv Value, args []Value, dst ssa.Value, pos token.Pos, inDefer bool, work *[]*State) bool {
	setRes := func(v Value) {
		if dst != nil {
			fr.Regs[dst] = v
		}
	}
	sig := c.Signature()
	if c.IsInvoke() {
		iv := fnv.(IfaceV)
		ex.emit(st, "nil", ex.srcLabel(fr.Fn, pos, "invoke"), Neq(iv.Tag, Zero), pos, []string{"C17"})
		st.assume(Neq(iv.Tag, Zero))
		if iv.Tag.IsInt() {
			dt := tags.byTag[iv.Tag.Int.Int64()]
			if dt != nil {
				sel := ex.P.SSA.MethodSets.MethodSet(dt).Lookup(c.Method.Pkg(), c.Method.Name())
				if sel != nil {
					fn := ex.P.SSA.MethodValue(sel)
					recv := ex.unbox(st, iv, dt)
					return ex.callStatic(st, fr, fn, append([]Value{recv}, args...), dst, pos, inDefer, work)
				}
			}
		}
		// interface contract
		it := c.Value.Type()
		key := typeName(it) + "." + c.Method.Name()
		if sp, ok := ex.Specs.Ifaces[key]; ok {
			res := ex.applyContract(st, fr, sp, nil, c.Method.Type().(*types.Signature), append([]Value{iv}, args...), pos, "recv")
			setRes(res)
			return false
		}
		ex.unknownCall(st, fr, "invoke "+key, sig, append([]Value{iv}, args...), dst, true)
		return false
	}
	switch f := fnv.(type) {
	case FuncV:
		// typed contents of sync.Map fields ('syncmap f: p(k, v)' in the type block of the struct)
		if full := f.Fn.String(); strings.HasPrefix(full, "(*sync.Map).") && len(c.Args) > 0 && ex.pure == nil {
			if sv, tn, fa := ex.syncViewOf(c.Args[0]); sv != nil {
				// a sync.Map with a ghost view: the call is an update of the view
				m := strings.TrimPrefix(full, "(*sync.Map).")
				ci := ex.syncMapInvOf(c.Args[0])
				if ci != nil && m == "Store" && len(args) == 3 {
					ex.emit(st, "pre", ex.srcLabel(fr.Fn, pos, "syncmap-store"), ex.syncMapFact(st, fr, ci, args[1], args[2], c.Args[2]), pos, mergeProps(ex.topProps(st), ci.Props))
				}
				if m == "Range" && len(args) == 2 {
					// Range(f): f runs once per entry. f must be under contract and promise nothing (no ensures):
					// its precondition is checked for an arbitrary entry (one satisfying the table's content
					// clause) in the state before the first call and again in a state in which everything f may
					// modify has been given up - which covers every later call; afterwards that state remains.
					var cb *ssa.Function
					switch f := args[1].(type) {
					case *ClosureV:
						cb = f.Fn
					case FuncV:
						cb = f.Fn
					}
					var csp *FuncSpec
					if cb != nil {
						csp = ex.Specs.Funcs[specName(cb)]
					}
					if csp == nil || len(csp.Ensures) > 0 || csp.Inline {
						tool("Range over a viewed sync.Map needs a callback under contract, without ensures")
					}
					kt := types.Universe.Lookup(sv.Key).Type()
					for i := 0; i < 2; i++ {
						kf := freshValue("rangekey", kt)
						ex.assumeInv(st, kt, kf)
						kv := ex.makeIface(st, kf, kt)
						ev := IfaceV{Fresh("rangetag", SInt), Fresh("rangeval", SInt)}
						for _, f := range typeInv(types.NewInterfaceType(nil, nil), ev, nil) {
							st.assume(f)
						}
						if ci != nil {
							st.assume(ex.syncMapFact(st, fr, ci, kv, ev))
						}
						ex.applyContract(st, fr, csp, cb, cb.Signature, []Value{kv, ev}, pos, "")
					}
					setRes(TupleV{})
					return false
				}
				res := ex.syncViewCall(st, fr, sv, tn, fa, m, args, pos)
				if tv, ok := res.(TupleV); ok && len(tv.V) == 2 && ci != nil {
					st.assume(Implies(tv.V[1].(Scalar).T, ex.syncMapFact(st, fr, ci, args[1], tv.V[0])))
				}
				setRes(res)
				return false
			}
			if ci := ex.syncMapInvOf(c.Args[0]); ci != nil {
				m := strings.TrimPrefix(full, "(*sync.Map).")
				if (m == "Store" || m == "LoadOrStore") && len(args) == 3 {
					ex.emit(st, "pre", ex.srcLabel(fr.Fn, pos, "syncmap-store"), ex.syncMapFact(st, fr, ci, args[1], args[2]), pos, mergeProps(ex.topProps(st), ci.Props))
				}
				pushed := ex.callStatic(st, fr, f.Fn, args, dst, pos, inDefer, work)
				if !pushed && dst != nil && (m == "Load" || m == "LoadOrStore" || m == "LoadAndDelete") {
					if tv, ok := fr.Regs[dst].(TupleV); ok && len(tv.V) == 2 {
						fact := ex.syncMapFact(st, fr, ci, args[1], tv.V[0])
						if m == "LoadOrStore" {
							st.assume(fact) // the loaded entry, or the one just stored (checked above)
						} else if okv, isS := tv.V[1].(Scalar); isS {
							st.assume(Implies(okv.T, fact))
						}
					}
				}
				return pushed
			}
		}
		return ex.callStatic(st, fr, f.Fn, args, dst, pos, inDefer, work)
	case *ClosureV:
		return ex.callStatic(st, fr, f.Fn, args, dst, pos, inDefer, work, f.Bind...)
	case BoundV:
		return ex.callStatic(st, fr, f.Fn, append([]Value{f.Recv}, args...), dst, pos, inDefer, work)
	}
	if b, ok := c.Value.(*ssa.Builtin); ok {
		setRes(ex.builtin(st, fr, b, c, args, pos))
		return false
	}
	// a named function type with a contract (iface block keyed by the type name)
	if sp, ok := ex.Specs.Ifaces[typeName(c.Value.Type())]; ok {
		setRes(ex.applyContract(st, fr, sp, nil, sig, args, pos, ""))
		return false
	}
	// cancelling a context touches nothing of the program's heap; that it has been cancelled is recorded
	// (class ctxstate.cancelled, indexed by the cancel function's identity; cancelled(f) in contracts)
	if typeName(c.Value.Type()) == "context.CancelFunc" {
		if sv, ok := fnv.(Scalar); ok && ex.pure == nil {
			ex.checkFrameCancel(st, sv.T, pos)
			h := st.heapGet(ctxCancelledClass, SArr(SInt, SBool))
			st.heapSet(ctxCancelledClass, Store(h, sv.T, True))
		}
		setRes(TupleV{})
		return false
	}
	ex.unknownCall(st, fr, "dynamic call in "+specName(fr.Fn), sig, args, dst, true)
	return false
}

func (ex *Exec) callStatic(st *State, fr *Frame, fn *ssa.Function, args []Value, dst ssa.Value, pos token.Pos, inDefer bool, work *[]*State, binds ...Value) bool {
	setRes := func(v Value) {
		if dst != nil {
			fr.Regs[dst] = v
		}
	}
	name := specName(fn)
	full := fn.String()
	if m, ok := models[full]; ok {
		setRes(m(ex, st, fr, fn, args, pos))
		return false
	}
	sp := ex.Specs.Funcs[name]
	if sp == nil || ex.pure != nil {
		if res, ok := ex.modelByPattern(st, fr, fn, full, args, pos); ok {
			setRes(res)
			return false
		}
	}
	// wrappers ($bound, $thunk) and synthetic functions: inline transparently
	synthetic := fn.Synthetic != "" && fn.Blocks != nil
	if sp != nil && !sp.Inline && ex.pure == nil {
		res := ex.applyContract(st, fr, sp, fn, fn.Signature, args, pos, "")
		setRes(res)
		return false
	}
	if sp != nil && sp.Pure && ex.pure != nil && !ex.inRepoBody(fn) {
		res := ex.applyContract(st, fr, sp, fn, fn.Signature, args, pos, "")
		setRes(res)
		return false
	}
	if fn.Blocks != nil && (ex.inRepo(fn) || synthetic) {
		if ex.onStack(st, fn) {
			ex.unknownCall(st, fr, "recursive call to "+name+" without contract", fn.Signature, args, dst, true)
			return false
		}
		if fr.Depth >= ex.MaxInline && !(sp != nil && sp.Inline) && !synthetic {
			ex.unknownCall(st, fr, "inline depth exceeded at "+name, fn.Signature, args, dst, true)
			return false
		}
		nf := ex.pushFrame(st, fn, args, dst, fr.Depth+1)
		// loop invariants of an inlined body speak about its own entry state (old, fresh)
		nf.EntryFull = st.snapshotFull()
		for i, fv := range fn.FreeVars {
			if i < len(binds) {
				nf.Regs[fv] = binds[i]
			}
		}
		nf.InDefer = inDefer
		if inDefer {
			nf.RetTo = nil
		}
		return true
	}
	ex.unknownCall(st, fr, "extern "+full, fn.Signature, args, dst, false)
	return false
}

func (ex *Exec) inRepoBody(fn *ssa.Function) bool { return fn.Blocks != nil && ex.inRepo(fn) }

// ---------- unknown calls ----------

func isRepoClass(class string) bool {
	c := strings.TrimPrefix(class, "G:")
	if strings.HasPrefix(c, "$") {
		return true // ghost globals belong to the specification of the repository
	}
	for _, p := range []string{"proxy.", "proxycore.", "parser.", "codecs.", "astra.", "chanstate."} {
		if strings.HasPrefix(c, p) {
			return true
		}
	}
	return false
}

// chanClosedClass: has close(ch) been executed on channel ch. Counted among the repository's classes:
// library code is assumed not to close the repository's channels.
const chanClosedClass = "chanstate.closed"

// ctxCancelledClass: has the cancel function (a context.CancelFunc value) been called.
const ctxCancelledClass = "chanstate.cancelled"

func (ex *Exec) preserved(class string) bool { return preservedClass(class) }

// isGhostClass: classes whose frame is strict - they change only where a contract names them, also
// under 'modifies *': specification state, and the contents of maps declared 'owned-map'.
func isGhostClass(class string) bool {
	if strings.Contains(class, "$") {
		return true
	}
	if globalSpecs != nil && len(globalSpecs.StrictFields) > 0 && !strings.HasPrefix(class, "map:") {
		for c := range globalSpecs.StrictFields {
			if classMatches(class, c) {
				return true
			}
		}
	}
	if globalSpecs != nil && strings.HasPrefix(class, "map:") {
		for c := range globalSpecs.OwnedMaps {
			if class == c || strings.HasPrefix(class, c+"#") {
				return true
			}
		}
	}
	return false
}

// havocAll forgets the real heap (repository classes only when repoToo). Ghost state changes only
// through declared events, except at calls of repository code without any contract (ghostToo).
func (ex *Exec) havocAll(st *State, repoToo bool, ghostToo ...bool) {
	gh := len(ghostToo) > 0 && ghostToo[0]
	// named locals living on the heap are out of reach of the callee unless they escaped to it
	before := map[string]*Term{}
	for _, lc := range st.LocalCells {
		esc := false
		for _, e := range st.Escaped {
			if e == lc.Class {
				esc = true
			}
		}
		if esc {
			continue
		}
		for class, h := range st.Heap {
			if class == lc.Class || strings.HasPrefix(class, lc.Class+"@") || strings.HasPrefix(class, lc.Class+".") {
				before[class] = h
			}
		}
	}
	defer func() {
		for _, lc := range st.LocalCells {
			for class, oldH := range before {
				if class == lc.Class || strings.HasPrefix(class, lc.Class+"@") || strings.HasPrefix(class, lc.Class+".") {
					cur := st.heapGet(class, oldH.Sort)
					if cur != oldH && oldH.Sort.Kind == KArr && oldH.Sort.Idx == SInt {
						st.Heap[class] = Store(cur, lc.Ref, Select(oldH, lc.Ref))
					}
				}
			}
		}
	}()
	for class := range st.Heap {
		if ex.preserved(class) {
			continue
		}
		if isGhostClass(class) {
			if gh {
				st.havocClass(class)
			}
			continue
		}
		if !repoToo && isRepoClass(class) {
			continue
		}
		st.havocClass(class)
	}
	st.HavExt = true
	if repoToo {
		exc := st.PendingExcept
		if !st.HavRepo {
			st.HavExcept = append([]string{}, exc...)
		} else {
			var both []string
			for _, a := range st.HavExcept {
				for _, b := range exc {
					if a == b {
						both = append(both, a)
					}
				}
			}
			st.HavExcept = both
		}
		st.HavRepo = true
	}
	st.PendingExcept = nil
	if gh {
		st.HavGhost = true
	}
}

func copyLocks(m map[string]int) map[string]int {
	o := map[string]int{}
	for k, v := range m {
		o[k] = v
	}
	return o
}

func carriesCallback(args []Value) bool {
	for _, a := range args {
		switch x := a.(type) {
		case *ClosureV, FuncV, BoundV:
			return true
		case IfaceV:
			if x.Tag.IsInt() {
				if t := tags.byTag[x.Tag.Int.Int64()]; t != nil {
					// a repository type with methods (or a pointer to one) can be called back
					if (isRepoClass(typeName(t)) || isRepoClass(strings.TrimPrefix(typeName(t), "*"))) && (pointerShaped(t) || types.NewMethodSet(t).Len() > 0) {
						return true
					}
				}
			} else {
				return true
			}
		}
	}
	return false
}

// escapeArgs records repo-typed objects handed to code without a contract: that code (now or later,
// it may keep the pointer) can write them.
func (ex *Exec) escapeArgs(st *State, args []Value) {
	add := func(class string) {
		for _, e := range st.Escaped {
			if e == class {
				return
			}
		}
		st.Escaped = append(st.Escaped, class)
	}
	for _, a := range args {
		switch x := a.(type) {
		case *PtrV:
			if x.Root == RObj {
				add(x.Class)
			}
		case IfaceV:
			if x.Tag.IsInt() {
				if t := tags.byTag[x.Tag.Int.Int64()]; t != nil {
					if pt, ok := under(t).(*types.Pointer); ok {
						add(classOf(pt.Elem()))
					}
				}
			}
		}
	}
}

func (ex *Exec) unknownCall(st *State, fr *Frame, what string, sig *types.Signature, args []Value, dst ssa.Value, repo bool) {
	ex.note("havoc: " + what)
	if repo || carriesCallback(args) {
		// code we know nothing about may write anything: not compatible with a stated frame
		if top := ex.topFrame(st); top.Spec != nil && !top.Spec.ModAll && ex.pure == nil {
			ex.emit(st, "frame", "call:unknown:"+what, False, token.NoPos, top.Spec.Props)
		}
		ex.havocAll(st, true, true)
	} else {
		ex.escapeArgs(st, args)
		ex.havocAll(st, false)
		for _, e := range st.Escaped {
			for class := range st.Heap {
				if classMatches(class, e) || strings.HasPrefix(class, e+".") {
					st.havocClass(class)
				}
			}
			st.HavPrefix = append(st.HavPrefix, e+".")
		}
	}
	nf := Fresh("hi", SInt)
	st.assume(Le(st.Frontier, nf))
	st.Frontier = nf
	rt := resultType(sig)
	res := freshValue("ret", rt)
	ex.assumeInv(st, rt, res)
	if dst != nil {
		fr.Regs[dst] = res
	}
}

// ---------- contracts at call sites ----------

func (ex *Exec) applyContract(st *State, fr *Frame, sp *FuncSpec, fn *ssa.Function, sig *types.Signature, args []Value, pos token.Pos, recvName string) Value {
	ex.Used[sp.Name] = true
	if sp.Trusted {
		ex.Assumed[sp.Name] = true
	}
	env := ex.calleeEnv(st, sp, fn, sig, args, recvName)
	env.lets = sp.Lets
	for i, c := range sp.Requires {
		if ex.inSpecCall {
			break // a contract function applied inside a specification expression: a term, not a call that happens
		}
		t := ex.evalBool(env, c.Expr)
		ex.emit(st, "pre", fmt.Sprintf("%s:%s@%s", sp.Name, clauseLabel(c, i), ex.callSite(fr, pos)), t, pos, mergeProps(sp.Props, c.Props))
		st.assume(t)
	}
	// recursion: a callee with a termination measure, called from a function with one, must be
	// called with a strictly smaller measure (lexicographic, bounded below by 0)
	if top := ex.topFrame(st); len(sp.Decreases) > 0 && len(top.Measure) > 0 && ex.pure == nil {
		var now []*Term
		for _, d := range sp.Decreases {
			now = append(now, ex.evalInt(env, d))
		}
		n := len(now)
		if len(top.Measure) < n {
			n = len(top.Measure)
		}
		ex.emit(st, "decreases", "call:"+sp.Name+"@"+ex.callSite(fr, pos), lexLess(now[:n], top.Measure[:n]), pos, mergeProps(sp.Props, nil))
	}
	old := st.snapshotFull()
	for _, name := range sp.Escapes {
		if tv, ok := env.vars[name]; ok {
			ex.escapeArgs(st, []Value{tv.V})
		}
	}
	if sp.ModEscaped {
		for _, e := range st.Escaped {
			for class := range st.Heap {
				if classMatches(class, e) || strings.HasPrefix(class, e+".") {
					st.havocClass(class)
				}
			}
			st.HavPrefix = append(st.HavPrefix, e+".", e)
		}
	}
	// frame
	if sp.ModAll {
		before := map[string]*Term{}
		keep := map[string]*Term{}
		pres := sp.PreservesTypes
		if sp.Extern {
			// a dependency does not write repository types it was not handed (extern-frame assumption):
			// what the function under verification promises to preserve survives the call
			if top := ex.topFrame(st); top.Spec != nil {
				pres = append(append([]string{}, pres...), top.Spec.PreservesTypes...)
			}
		}
		for _, tn := range pres {
			for class, h := range st.Heap {
				if strings.HasPrefix(class, tn+".") {
					keep[class] = h
				}
			}
		}
		if sp.PreservesHeld {
			for _, h := range st.Held {
				if ts := ex.Specs.Types[h.Type]; ts != nil {
					for f := range ts.Guarded {
						for class := range classSorts {
							if class == h.Type+"."+f || strings.HasPrefix(class, h.Type+"."+f+"@") || strings.HasPrefix(class, h.Type+"."+f+".") {
								before[class] = st.heapGet(class, classSorts[class])
							}
						}
					}
				}
			}
		}
		st.PendingExcept = pres
		ex.havocAll(st, true)
		for class, h := range keep {
			st.Heap[class] = h
		}
		if sp.PreservesHeld {
			ex.restoreHeld(st, before)
		}
		if top := ex.topFrame(st); top.Spec != nil && !top.Spec.ModAll && ex.pure == nil {
			ex.emit(st, "frame", "call:*@"+sp.Name, False, pos, top.Spec.Props)
		}
		if top := ex.topFrame(st); top.Spec != nil && ex.pure == nil {
			for _, tn := range top.Spec.PreservesTypes {
				kept := sp.Extern
				for _, t2 := range sp.PreservesTypes {
					if t2 == tn {
						kept = true
					}
				}
				if !kept {
					ex.emit(st, "frame", "preserves-type:"+tn+":call:*@"+sp.Name, False, pos, top.Spec.Props)
				}
			}
		}
	}
	for _, m := range sp.Modifies {
		ex.havocLvalue(st, fr, env, m, pos)
	}
	// the callee's own recorders are reset and rewritten by it
	for _, l := range sp.Locals {
		seen := false
		for class := range classSorts {
			if class == "G:$"+l.Name || strings.HasPrefix(class, "G:$"+l.Name+"@") || strings.HasPrefix(class, "G:$"+l.Name+".") || strings.HasPrefix(class, "G:$"+l.Name+"[") {
				st.havocClass(class)
				seen = true
			}
		}
		if !seen {
			st.HavPrefix = append(st.HavPrefix, "G:$"+l.Name)
		}
	}
	{
		// the callee may allocate even when it modifies nothing
		nf := Fresh("hi", SInt)
		st.assume(Le(st.Frontier, nf))
		st.Frontier = nf
	}
	rt := resultType(sig)
	res := freshValue("ret", rt)
	ex.assumeInv(st, rt, res)
	env2 := ex.calleeEnv(st, sp, fn, sig, args, recvName)
	env2.lets = sp.Lets
	env2.old = old
	env2.bindResults(sig, res)
	for _, c := range sp.Ensures {
		t := ex.evalBool(env2, c.Expr)
		if k, ok := sp.Known[c.Label]; ok && c.Label != "" {
			// a clause with a recorded finding is only established outside the recorded region
			t = Implies(Not(ex.evalBool(env2, k.Expr)), t)
		}
		st.assume(t)
	}
	for _, c := range sp.Defines {
		st.assume(ex.evalBool(env2, c.Expr))
		ex.Assumed[sp.Name+" defines "+c.Text] = true
	}
	return res
}

func (ex *Exec) callSite(fr *Frame, pos token.Pos) string {
	return specName(fr.Fn)
}

// ---------- builtins ----------

func (ex *Exec) builtin(st *State, fr *Frame, b *ssa.Builtin, c *ssa.CallCommon, args []Value, pos token.Pos) Value {
	switch b.Name() {
	case "len":
		switch x := args[0].(type) {
		case SliceV:
			return Scalar{x.Len}
		case Scalar:
			switch under(c.Args[0].Type()).(type) {
			case *types.Basic:
				for _, f := range strFacts(x.T) {
					st.assume(f)
				}
				return Scalar{SLen(x.T)}
			case *types.Map:
				l := Select(st.heapGet(mapClass(c.Args[0].Type())+"#len", SArr(SInt, SInt)), x.T)
				st.assume(Le(Zero, l))
				st.assume(Implies(Eq(x.T, Zero), Eq(l, Zero)))
				return Scalar{l}
			case *types.Chan:
				r := Fresh("chanlen", SInt)
				st.assume(Le(Zero, r))
				return Scalar{r}
			}
		case ArrayV:
			return Scalar{IntLit(x.N)}
		case *PtrV:
			if at, ok := under(x.Elem).(*types.Array); ok {
				return Scalar{IntLit(at.Len())}
			}
		}
	case "cap":
		switch x := args[0].(type) {
		case SliceV:
			return Scalar{x.Cap}
		case ArrayV:
			return Scalar{IntLit(x.N)}
		case Scalar:
			r := Fresh("chancap", SInt)
			st.assume(Le(Zero, r))
			return Scalar{r}
		}
	case "append":
		return ex.doAppend(st, fr, c, args, pos)
	case "copy":
		return ex.doCopy(st, fr, c, args, pos)
	case "delete":
		mt := c.Args[0].Type()
		ref := args[0].(Scalar).T
		ex.checkGuardedMapWrite(st, fr, c.Args[0], pos)
		ex.checkFrameMap(st, mt, ref, pos)
		key := ex.mapKey(st, args[1], under(mt).(*types.Map).Key())
		// delete on nil map is a no-op
		ex.mapDelete(st, mt, ref, key)
		return TupleV{}
	case "close":
		// close(ch) panics on a nil and on an already closed channel. Closedness is heap state of its own
		// (class chanstate.closed, indexed by the channel), written only here.
		ch := args[0].(Scalar).T
		if ex.chanOpenOf(c.Args[0]) {
			ex.emit(st, "immutable", ex.srcLabel(fr.Fn, pos, "close-of-open-channel"), False, pos, ex.topProps(st))
		}
		ex.emit(st, "nil", ex.srcLabel(fr.Fn, pos, "close"), Neq(ch, Zero), pos, []string{"C17"})
		st.assume(Neq(ch, Zero))
		h := st.heapGet(chanClosedClass, SArr(SInt, SBool))
		ex.emit(st, "safety", ex.srcLabel(fr.Fn, pos, "close-closed"), Not(Select(h, ch)), pos, []string{"C17"})
		ex.checkFrameChan(st, ch, pos)
		st.heapSet(chanClosedClass, Store(h, ch, True))
		return TupleV{}
	case "print", "println":
		return TupleV{}
	case "recover":
		return IfaceV{Zero, Zero}
	case "ssa:wrapnilchk":
		return args[0]
	case "ssa:deferstack":
		return Scalar{Zero}
	case "min", "max":
		r := args[0].(Scalar).T
		for _, a := range args[1:] {
			y := a.(Scalar).T
			if b.Name() == "min" {
				r = Ite(Lt(y, r), y, r)
			} else {
				r = Ite(Lt(r, y), y, r)
			}
		}
		return Scalar{r}
	case "clear":
		ex.havocAll(st, true)
		return TupleV{}
	}
	tool("builtin %s", b.Name())
	return nil
}

// doAppend: append(s, t...). Both outcomes (in place / reallocation) are explored via an ite on capacity.
func (ex *Exec) doAppend(st *State, fr *Frame, c *ssa.CallCommon, args []Value, pos token.Pos) Value {
	s := args[0].(SliceV)
	et := under(c.Args[0].Type()).(*types.Slice).Elem()
	var tArr, tOff, tLen *Term
	var tStr *Term
	switch t := args[1].(type) {
	case SliceV:
		tArr, tOff, tLen = t.Arr, t.Off, t.Len
	case Scalar: // append([]byte, string...)
		tStr = t.T
		tLen = SLen(t.T)
		for _, f := range strFacts(t.T) {
			st.assume(f)
		}
	}
	newLen := Add(s.Len, tLen)
	fits := Le(newLen, s.Cap)
	if tLen.IsInt() && tLen.Int.Sign() == 0 {
		return s
	}
	if isStructT(et) {
		// struct elements: fresh backing, contents unconstrained
		arr := ex.alloc(st)
		nc := Fresh("appcap", SInt)
		st.assume(Le(newLen, nc))
		ex.note("append of struct slice abstracted in " + specName(fr.Fn))
		return SliceV{arr, Zero, newLen, nc}
	}
	fresh := ex.alloc(st)
	newCap := Fresh("appcap", SInt)
	st.assume(And(Le(newLen, newCap), Le(newCap, BigLit(pow2(48)))))
	resArr := Ite(fits, s.Arr, fresh)
	resOff := Ite(fits, s.Off, Zero)
	resCap := Ite(fits, s.Cap, newCap)
	cls := "[]" + typeName(et)
	cs := comps(et)
	// the in-place variant writes the caller-visible backing array: frame check
	if !(st.Fresh[s.Arr]) {
		ex.checkFrameElem(st, &PtrV{Root: RElem, Arr: s.Arr, Idx: Add(s.Off, s.Len), Elem: et}, pos, And(fits, Lt(Zero, tLen)))
	}
	for _, cp := range cs {
		h := st.heapGet(cls+cp.Suffix, heapSort(2, cp.Sort))
		nh := Fresh("H:"+cls+cp.Suffix, h.Sort)
		k := Fresh("k", SInt)
		a := Fresh("a", SInt)
		srcAt := func(i *Term) *Term {
			if tStr != nil {
				return UF("sat", SInt, tStr, i)
			}
			return Select(Select(h, tArr), Add(tOff, i))
		}
		// result array content
		pre := Forall([]*Term{k}, Implies(And(Le(Zero, k), Lt(k, s.Len)),
			Eq(Select(Select(nh, resArr), Add(resOff, k)), Select(Select(h, s.Arr), Add(s.Off, k)))))
		app := Forall([]*Term{k}, Implies(And(Le(Zero, k), Lt(k, tLen)),
			Eq(Select(Select(nh, resArr), Add(resOff, Add(s.Len, k))), srcAt(k))))
		// every other array is unchanged; in place: cells outside [off+len, off+newLen) unchanged
		other := Forall([]*Term{a}, Implies(Neq(a, resArr), Eq(Select(nh, a), Select(h, a))))
		inpl := Implies(fits, Forall([]*Term{k}, Implies(Or(Lt(k, Add(s.Off, s.Len)), Le(Add(s.Off, newLen), k)),
			Eq(Select(Select(nh, s.Arr), k), Select(Select(h, s.Arr), k)))))
		st.assume(And(pre, app, other, inpl))
		st.heapSet(cls+cp.Suffix, nh)
		// small constant lengths: instantiate explicitly to help the solvers
		if tLen.IsInt() && tLen.Int.IsInt64() && tLen.Int.Int64() <= 4 {
			for i := int64(0); i < tLen.Int.Int64(); i++ {
				st.assume(Eq(Select(Select(nh, resArr), Add(resOff, Add(s.Len, IntLit(i)))), srcAt(IntLit(i))))
			}
		}
	}
	return SliceV{resArr, resOff, newLen, resCap}
}

func (ex *Exec) doCopy(st *State, fr *Frame, c *ssa.CallCommon, args []Value, pos token.Pos) Value {
	d := args[0].(SliceV)
	et := under(c.Args[0].Type()).(*types.Slice).Elem()
	var sArr, sOff, sLen, sStr *Term
	switch t := args[1].(type) {
	case SliceV:
		sArr, sOff, sLen = t.Arr, t.Off, t.Len
	case Scalar:
		sStr = t.T
		sLen = SLen(t.T)
		for _, f := range strFacts(t.T) {
			st.assume(f)
		}
	}
	n := Ite(Lt(sLen, d.Len), sLen, d.Len)
	if isStructT(et) {
		ex.note("copy of struct slice abstracted in " + specName(fr.Fn))
		ex.havocAll(st, true)
		return Scalar{n}
	}
	if !st.Fresh[d.Arr] {
		ex.checkFrameElem(st, &PtrV{Root: RElem, Arr: d.Arr, Idx: d.Off, Elem: et}, pos, Lt(Zero, n))
	}
	cls := "[]" + typeName(et)
	for _, cp := range comps(et) {
		h := st.heapGet(cls+cp.Suffix, heapSort(2, cp.Sort))
		nh := Fresh("H:"+cls+cp.Suffix, h.Sort)
		k := Fresh("k", SInt)
		a := Fresh("a", SInt)
		srcAt := func(i *Term) *Term {
			if sStr != nil {
				return UF("sat", SInt, sStr, i)
			}
			return Select(Select(h, sArr), Add(sOff, i))
		}
		cp1 := Forall([]*Term{k}, Implies(And(Le(Zero, k), Lt(k, n)), Eq(Select(Select(nh, d.Arr), Add(d.Off, k)), srcAt(k))))
		rest := Forall([]*Term{k}, Implies(Or(Lt(k, d.Off), Le(Add(d.Off, n), k)), Eq(Select(Select(nh, d.Arr), k), Select(Select(h, d.Arr), k))))
		other := Forall([]*Term{a}, Implies(Neq(a, d.Arr), Eq(Select(nh, a), Select(h, a))))
		st.assume(And(cp1, rest, other))
		st.heapSet(cls+cp.Suffix, nh)
	}
	return Scalar{n}
}
