package main

import (
	"fmt"
	"go/token"
	"go/types"
	"sort"
	"strings"

	"golang.org/x/tools/go/ssa"
)

// PC is a persistent list of path assumptions.
type PC struct {
	T      *Term
	Prev   *PC
	N      int
	Branch bool
}

func (p *PC) push(t *Term) *PC {
	if t.IsTrue() {
		return p
	}
	n := 1
	if p != nil {
		n = p.N + 1
	}
	return &PC{T: t, Prev: p, N: n}
}

func (p *PC) list() []*Term {
	var out []*Term
	for c := p; c != nil; c = c.Prev {
		out = append(out, c.T)
	}
	for i, j := 0, len(out)-1; i < j; i, j = i+1, j-1 {
		out[i], out[j] = out[j], out[i]
	}
	return out
}

type deferred struct {
	call *ssa.CallCommon
	fn   Value
	args []Value
	pos  token.Pos
}

type Frame struct {
	Fn      *ssa.Function
	Regs    map[ssa.Value]Value
	Cells   map[*ssa.Alloc]*Cell
	Defers  []deferred
	Block   *ssa.BasicBlock
	Prev    *ssa.BasicBlock
	Idx     int
	Depth   int
	Result  Value
	EntryFull *FullSnapshot
	Mods    []modLoc
	Measure []*Term // value of the function's decreases clause at entry
	CallCount map[string]int
	RetTo   ssa.Value // call instruction in the caller that receives the result (nil for top)
	LoopIn  map[*ssa.BasicBlock]*loopEntry
	Spec    *FuncSpec // contract being verified for this frame (top frame) or nil when inlined
	Entry   *Snapshot
	Params  map[string]Value
	Extra   map[string]TV // additional names visible to the contract of this frame (implementer checks)
	Panicky bool
	InDefer bool      // frame runs a deferred call: on return resume RunDefers in caller
	OnRet   func(st *State, fr *Frame, res Value) // optional hook when the frame returns
}

type loopEntry struct {
	Measure []*Term // decreases values at loop head (after havoc)
	Spec    *LoopSpec
}

type Snapshot struct {
	Heap     map[string]*Term
	Frontier *Term
	Locks    map[string]int
}

type State struct {
	Frames   []*Frame
	Locals   map[*Cell]Value
	Heap     map[string]*Term
	PC       *PC
	Frontier *Term
	Locks    map[string]int // lock ref term string -> 0 none, 1 read, 2 write
	Dead     bool
	Trace    []string
	Fresh    map[*Term]bool // refs allocated on this path since top-level entry
	ReadLog  *[]string      // when set: heap classes read (footprint check of opaque predicates)
	Written  map[string]bool
	HavRepo  bool     // a havoc of repo classes happened: untouched classes are no longer the entry heap
	HavExcept     []string // type prefixes exempt from every repo havoc so far (classes not yet read keep their entry value)
	PendingExcept []string // set by the caller of havocAll: the types the havocking callee promises to preserve
	HavExt   bool     // same for non-repo classes
	HavGhost bool     // ghost state was havocked (call of repository code without contract)
	HavPrefix []string // class prefixes havocked by loops
	Escaped   []string // repo classes whose objects were handed to code without contract
	Held      []heldMon // monitors whose lock this thread holds
	LocalCells []localCell // heap-allocated local variables (captured by closures) of the frames on this path
}

type localCell struct {
	Ref   *Term
	Class string
}

type heldMon struct {
	Owner *Term
	Type  string
	Mu    string
	Key   string
}

func (st *State) clone() *State {
	n := &State{PC: st.PC, Frontier: st.Frontier, HavRepo: st.HavRepo, HavExt: st.HavExt, HavGhost: st.HavGhost, HavExcept: append([]string{}, st.HavExcept...), HavPrefix: append([]string{}, st.HavPrefix...), Escaped: append([]string{}, st.Escaped...), Held: append([]heldMon{}, st.Held...), LocalCells: append([]localCell{}, st.LocalCells...)}
	n.Frames = make([]*Frame, len(st.Frames))
	for i, f := range st.Frames {
		nf := *f
		nf.Regs = make(map[ssa.Value]Value, len(f.Regs))
		for k, v := range f.Regs {
			nf.Regs[k] = v
		}
		nf.Cells = make(map[*ssa.Alloc]*Cell, len(f.Cells))
		for k, v := range f.Cells {
			nf.Cells[k] = v
		}
		nf.Defers = append([]deferred{}, f.Defers...)
		if f.CallCount != nil {
			nf.CallCount = make(map[string]int, len(f.CallCount))
			for k, v := range f.CallCount {
				nf.CallCount[k] = v
			}
		}
		nf.LoopIn = make(map[*ssa.BasicBlock]*loopEntry, len(f.LoopIn))
		for k, v := range f.LoopIn {
			nf.LoopIn[k] = v
		}
		n.Frames[i] = &nf
	}
	n.Locals = make(map[*Cell]Value, len(st.Locals))
	for k, v := range st.Locals {
		n.Locals[k] = v
	}
	n.Heap = make(map[string]*Term, len(st.Heap))
	for k, v := range st.Heap {
		n.Heap[k] = v
	}
	n.Locks = make(map[string]int, len(st.Locks))
	for k, v := range st.Locks {
		n.Locks[k] = v
	}
	n.Fresh = make(map[*Term]bool, len(st.Fresh))
	for k, v := range st.Fresh {
		n.Fresh[k] = v
	}
	n.Written = make(map[string]bool, len(st.Written))
	for k, v := range st.Written {
		n.Written[k] = v
	}
	n.Trace = append([]string{}, st.Trace...)
	return n
}

func (st *State) top() *Frame { return st.Frames[len(st.Frames)-1] }

func (st *State) assume(t *Term) {
	// split conjunctions (and implications of conjunctions) so that quantified conjuncts can be
	// separated from quantifier-free ones
	switch {
	case t.Op == "and":
		for _, a := range t.Args {
			st.assume(a)
		}
		return
	case t.Op == "=>" && t.Args[1].Op == "and":
		for _, a := range t.Args[1].Args {
			st.assume(Implies(t.Args[0], a))
		}
		return
	}
	st.PC = st.PC.push(t)
}

// assumeBranch records a control-flow decision (as opposed to a fact that always holds).
func (st *State) assumeBranch(t *Term) {
	st.PC = st.PC.push(t)
	if st.PC != nil && st.PC.T == t {
		st.PC.Branch = true
	}
}

func (st *State) snapshot() *Snapshot {
	s := &Snapshot{Heap: map[string]*Term{}, Frontier: st.Frontier, Locks: map[string]int{}}
	for k, v := range st.Heap {
		s.Heap[k] = v
	}
	for k, v := range st.Locks {
		s.Locks[k] = v
	}
	return s
}

// heap class access. dims: 1 = object field (ref), 2 = slice element (arr, idx).
func heapSort(dims int, comp *Sort) *Sort {
	s := comp
	for i := 0; i < dims; i++ {
		s = SArr(SInt, s)
	}
	return s
}

var classSorts = map[string]*Sort{}

func (st *State) heapGet(class string, sort *Sort) *Term {
	if st.ReadLog != nil {
		*st.ReadLog = append(*st.ReadLog, class)
	}
	if t, ok := st.Heap[class]; ok {
		return t
	}
	if old, ok := classSorts[class]; ok && old != sort {
		panic(fmt.Sprintf("heap class %s sort clash %s vs %s", class, old, sort))
	}
	classSorts[class] = sort
	var t *Term
	if st.classHavocked(class) {
		t = Fresh("H:"+class, sort)
	} else {
		t = Var("H:"+class, sort)
	}
	st.Heap[class] = t
	return t
}

var globalSpecs *Specs

func preservedClass(class string) bool {
	if globalSpecs == nil {
		return false
	}
	for c := range globalSpecs.ImmutableElems {
		if class == c || strings.HasPrefix(class, c+"@") {
			return true
		}
	}
	for tn, ts := range globalSpecs.Types {
		for f := range ts.Immutable {
			p := tn + "." + f
			if class == p || strings.HasPrefix(class, p+"@") || strings.HasPrefix(class, p+".") || strings.HasPrefix(class, p+"[") {
				return true
			}
		}
	}
	return false
}

func (st *State) classHavocked(class string) bool {
	if preservedClass(class) {
		return false
	}
	for _, p := range st.HavPrefix {
		if class == p || classMatches(class, p) {
			return true
		}
	}
	if isGhostClass(class) {
		return st.HavGhost
	}
	if isRepoClass(class) && st.HavRepo {
		for _, t := range st.HavExcept {
			if strings.HasPrefix(class, t+".") {
				return false
			}
		}
		return true
	}
	if !isRepoClass(class) && st.HavExt {
		return true
	}
	return false
}

func (st *State) heapSet(class string, t *Term) {
	classSorts[class] = t.Sort
	st.Heap[class] = t
	st.Written[class] = true
}

func (st *State) havocClass(class string) {
	s, ok := classSorts[class]
	if !ok {
		return
	}
	st.Heap[class] = Fresh("H:"+class, s)
	st.Written[class] = true
}

// ---------- obligations ----------

type Obligation struct {
	Name    string // stable, line-free
	Kind    string
	Func    string
	Pos     string
	Props   []string
	Q       *Query
	Res     *SolveResult
	Info    string
	Inst    int
	Trace   []string
	Vacuity bool // a cover query: expected sat
	ReplayArgs []TV
	ReplayLen  []bool
	ReplayFn   string
	ReplayPkg  *types.Package
}

func posString(fset *token.FileSet, p token.Pos) string {
	if !p.IsValid() {
		return ""
	}
	ps := fset.Position(p)
	f := ps.Filename
	if i := strings.Index(f, "/repo/"); i >= 0 {
		f = f[i+6:]
	}
	return fmt.Sprintf("%s:%d", f, ps.Line)
}

func sortedClasses(m map[string]*Term) []string {
	ks := make([]string, 0, len(m))
	for k := range m {
		ks = append(ks, k)
	}
	sort.Strings(ks)
	return ks
}

func zeroValue(t types.Type) Value {
	switch u := under(t).(type) {
	case *types.Basic:
		switch {
		case u.Info()&types.IsBoolean != 0:
			return Scalar{False}
		case u.Info()&types.IsString != 0:
			return Scalar{StrLit("")}
		}
		return Scalar{Zero}
	case *types.Pointer:
		return objPtr(Zero, u.Elem())
	case *types.Slice:
		return SliceV{Zero, Zero, Zero, Zero}
	case *types.Interface:
		return IfaceV{Zero, Zero}
	case *types.Struct:
		sv := StructV{}
		for i := 0; i < u.NumFields(); i++ {
			sv.F = append(sv.F, zeroValue(u.Field(i).Type()))
		}
		return sv
	case *types.Array:
		av := ArrayV{N: u.Len()}
		for _, z := range flatten(zeroValue(u.Elem())) {
			av.Comps = append(av.Comps, constArray(SArr(SInt, z.Sort), z))
		}
		return av
	case *types.Tuple:
		tv := TupleV{}
		for i := 0; i < u.Len(); i++ {
			tv.V = append(tv.V, zeroValue(u.At(i).Type()))
		}
		return tv
	}
	return Scalar{Zero}
}

// constArray is ((as const S) v).
func constArray(s *Sort, v *Term) *Term {
	return TP.mk("(as const "+s.str+")", "", s, nil, v)
}
