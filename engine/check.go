package main

import (
	"go/token"
	"go/types"

	"golang.org/x/tools/go/ssa"

	"context"
	"encoding/json"
	"flag"
	"fmt"
	"os"
	"os/exec"
	"path/filepath"
	"sort"
	"strings"
	"sync"
	"time"
)

var verifDir = func() string {
	if d := os.Getenv("VERIF_DIR"); d != "" {
		return d
	}
	return "/verif"
}()

type BaselineEntry struct {
	Claimed   []string `json:"claimed"`
	Unclaimed []string `json:"unclaimed"`
}

type KnownFinding struct {
	Property   string `json:"property"`
	Obligation string `json:"obligation"`
	What       string `json:"what"`
	Status     string `json:"status"` // "known" or "fixed"
	Commit     string `json:"commit,omitempty"`
	Region     string `json:"region,omitempty"`
}

func loadJSON(path string, v interface{}) error {
	b, err := os.ReadFile(path)
	if err != nil {
		return err
	}
	return json.Unmarshal(b, v)
}

func hasProp(ps []string, p string) bool {
	for _, x := range ps {
		if x == p {
			return true
		}
	}
	return false
}

func specHasProp(sp *FuncSpec, p string) bool {
	if hasProp(sp.Props, p) {
		return true
	}
	for _, c := range sp.Requires {
		if hasProp(c.Props, p) {
			return true
		}
	}
	for _, c := range sp.Ensures {
		if hasProp(c.Props, p) {
			return true
		}
	}
	return false
}

type checkRun struct {
	prop      string
	tier      string
	extra     map[string]interface{}
	prog      *Program
	specs     *Specs
	obls      []*Obligation
	funcs     []string
	limits    []string
	abstract  map[string]int
	assumed   map[string]bool
	used      map[string]bool
	timeoutMs int
	smtDir    string
}

// sweepProps: properties decided over every function under contract, by obligation kind (plus the
// clauses explicitly tagged with the property).
var sweepProps = map[string]map[string]bool{
	"C17": {"safety": true, "nil": true},                      // no panics on any input
	"C18": {"lock": true, "immutable": true, "monitor": true}, // lock discipline
}

// generate runs the VC generator over the closure of functions carrying the property.
func (cr *checkRun) generate() {
	todo := []string{}
	seen := map[string]bool{}
	for _, name := range cr.specs.Order {
		sp := cr.specs.Funcs[name]
		if sp.Verify && (specHasProp(sp, cr.prop) || sweepProps[cr.prop] != nil) {
			todo = append(todo, name)
			seen[name] = true
		}
	}
	// loops / types tagged with the property pull in their functions
	for _, ls := range cr.specs.Loops {
		if hasProp(ls.Props, cr.prop) {
			if sp, ok := cr.specs.Funcs[ls.Func]; ok && sp.Verify && !seen[ls.Func] {
				todo = append(todo, ls.Func)
				seen[ls.Func] = true
			}
		}
	}
	// implementer checks: every runtime type listed in an iface block is verified against it
	implSpecs := map[string]*FuncSpec{}
	var ikeys []string
	for key := range cr.specs.Ifaces {
		ikeys = append(ikeys, key)
	}
	sort.Strings(ikeys)
	for _, key := range ikeys {
		isp := cr.specs.Ifaces[key]
		if len(isp.Implementers) == 0 || !(specHasProp(isp, cr.prop) || sweepProps[cr.prop] != nil) {
			continue
		}
		for _, tn := range isp.Implementers {
			is := ImplSpec(isp, key, tn)
			implSpecs[is.Name] = is
			todo = append(todo, is.Name)
			seen[is.Name] = true
		}
	}
	for len(todo) > 0 {
		name := todo[0]
		todo = todo[1:]
		sp := cr.specs.Funcs[name]
		if sp == nil {
			sp = implSpecs[name]
		}
		ex := NewExec(cr.prog, cr.specs)
		ex.VerifyFunc(sp)
		cr.funcs = append(cr.funcs, name)
		cr.obls = append(cr.obls, ex.Obls...)
		cr.limits = append(cr.limits, ex.ToolLimit...)
		for k, v := range ex.Abstracted {
			cr.abstract[name+": "+k] += v
		}
		for k := range ex.Assumed {
			cr.assumed[k] = true
		}
		for k := range ex.Used {
			cr.used[k] = true
			if dep, ok := cr.specs.Funcs[k]; ok && dep.Verify && !seen[k] {
				seen[k] = true
				todo = append(todo, k)
			}
		}
	}
}

// readsObligations: the 'reads' directive - a syntactic dependence check on the function's own body.
func (cr *checkRun) readsObligations() {
	for _, name := range cr.specs.Order {
		sp := cr.specs.Funcs[name]
		if sp == nil || len(sp.Reads) == 0 || !(specHasProp(sp, cr.prop)) {
			continue
		}
		fn := cr.prog.FindFunc(sp.Name)
		for _, item := range sp.Reads {
			ok := fn != nil && fn.Blocks != nil && bodyReads(fn, item)
			st := "sat"
			if ok {
				st = "unsat"
			}
			cr.obls = append(cr.obls, &Obligation{Name: sp.Name + "#reads:" + item, Kind: "reads", Func: sp.Name, Props: sp.Props,
				Res: &SolveResult{Status: st, Solver: "scan"}})
		}
	}
}

// bodyReads: does fn's own body load parameter p ("p") or field f of the struct parameter p points to ("p.f")?
func bodyReads(fn *ssa.Function, item string) bool {
	pname, fname := item, ""
	if i := strings.Index(item, "."); i >= 0 {
		pname, fname = item[:i], item[i+1:]
	}
	var param *ssa.Parameter
	for _, p := range fn.Params {
		if p.Name() == pname {
			param = p
		}
	}
	if param == nil {
		return false
	}
	for _, b := range fn.Blocks {
		for _, in := range b.Instrs {
			if fname == "" {
				// a load of the parameter's cell (naive form), or a direct use
				if u, ok := in.(*ssa.UnOp); ok && u.Op == token.MUL {
					if al, ok := u.X.(*ssa.Alloc); ok && al.Comment == pname {
						return true
					}
				}
				continue
			}
			if fa, ok := in.(*ssa.FieldAddr); ok {
				if pt, ok := fa.X.Type().Underlying().(*types.Pointer); ok && types.Identical(pt, param.Type().Underlying()) {
					if st, ok := pt.Elem().Underlying().(*types.Struct); ok && st.Field(fa.Field).Name() == fname {
						return true
					}
				}
			}
		}
	}
	return false
}

func (cr *checkRun) solveAll() {
	// texts must be produced sequentially (term pool is not concurrent)
	var todo []*Obligation
	for _, o := range cr.obls {
		if o.Res != nil {
			continue
		}
		finalizeQuery(o.Q)
		todo = append(todo, o)
		// maintainer aid: VCGO_DUMP=<substring of an obligation name> writes the full queries to $TMPDIR
		if sub := os.Getenv("VCGO_DUMP"); sub != "" && strings.Contains(o.Name, sub) {
			if text, ok := o.Q.smtText(false, ""); ok {
				os.WriteFile(filepath.Join(os.TempDir(), fmt.Sprintf("vcgo_dump_%d.smt2", len(todo))), []byte("; "+o.Name+"\n"+text), 0644)
			}
		}
	}
	// stage 1: many queries per solver process, separated by (reset). A query with quantified
	// assumptions is first tried on its quantifier-free relaxation (sound for unsat).
	type first struct {
		o     *Obligation
		text  string
		relax bool
	}
	var firsts []first
	for _, o := range todo {
		memo := map[*Term]bool{}
		var qf []*Term
		nq := 0
		for _, a := range o.Q.Assumes {
			if hasQuant(a, memo) {
				nq++
			} else {
				qf = append(qf, a)
			}
		}
		q := o.Q
		relax := false
		if nq > 0 && !hasQuant(o.Q.Goal, memo) {
			q = &Query{Assumes: qf, Goal: o.Q.Goal}
			relax = true
		}
		text, ok := q.smtText(false, "")
		if !ok {
			continue
		}
		firsts = append(firsts, first{o, text, relax})
	}
	const batch = 24
	var wg sync.WaitGroup
	sem := make(chan struct{}, 16)
	for i := 0; i < len(firsts); i += batch {
		j := i + batch
		if j > len(firsts) {
			j = len(firsts)
		}
		chunk := firsts[i:j]
		wg.Add(1)
		go func(n int, chunk []first) {
			defer wg.Done()
			sem <- struct{}{}
			defer func() { <-sem }()
			var sb strings.Builder
			for _, f := range chunk {
				sb.WriteString(f.text)
				sb.WriteString("(reset)\n")
			}
			t0 := time.Now()
			file := fmt.Sprintf("%s/batch%d.smt2", cr.smtDir, n)
			os.WriteFile(file, []byte(sb.String()), 0644)
			ctx, cancel := context.WithTimeout(context.Background(), time.Duration(len(chunk)*3000+5000)*time.Millisecond)
			out, _ := exec.CommandContext(ctx, "z3-new", "-t:2500", file).Output()
			cancel()
			os.Remove(file)
			ms := time.Since(t0).Milliseconds() / int64(len(chunk))
			var answers []string
			for _, l := range strings.Split(string(out), "\n") {
				l = strings.TrimSpace(l)
				if l == "sat" || l == "unsat" || l == "unknown" || l == "timeout" {
					answers = append(answers, l)
				}
			}
			if len(answers) != len(chunk) {
				return // fall back to one-by-one
			}
			for k, f := range chunk {
				if answers[k] == "unsat" {
					name := "z3-new"
					if f.relax {
						name = "z3-new(qf)"
					}
					f.o.Res = &SolveResult{Status: "unsat", Solver: name, Ms: ms, Tried: []string{name + ":unsat(batch)"}, SMTText: f.text}
				}
			}
		}(i/batch, chunk)
	}
	wg.Wait()
	// stage 2: everything not yet proved goes through the full portfolio, one process per query
	ch := make(chan *Obligation)
	for w := 0; w < 16; w++ {
		wg.Add(1)
		go func(w int) {
			defer wg.Done()
			for o := range ch {
				tag := fmt.Sprintf("q%d_%d", w, time.Now().UnixNano())
				o.Res = o.Q.Solve(cr.smtDir, tag, cr.timeoutMs)
			}
		}(w)
	}
	for _, o := range todo {
		if o.Res == nil {
			ch <- o
		}
	}
	close(ch)
	wg.Wait()
}

// finalizeQuery adds the facts about string literals occurring in the query.
func finalizeQuery(q *Query) {
	all := append(append([]*Term{}, q.Assumes...), q.Goal)
	vars, _, _ := collectDecls(all)
	var lits []*Term
	for _, v := range vars {
		if strings.HasPrefix(v, "strlit!") {
			lits = append(lits, Var(v, SStr))
		}
	}
	if len(lits) == 0 {
		return
	}
	var extra []*Term
	if len(lits) > 1 {
		extra = append(extra, TP.mk("distinct", "", SBool, nil, lits...))
	}
	for _, l := range lits {
		extra = append(extra, litFacts(l)...)
	}
	// library case mapping on literals that are already in the target case
	for _, fn := range []string{"ext:strings.ToLower", "ext:strings.ToUpper"} {
		if _, used := TP.UFs[fn]; !used {
			continue
		}
		for _, l := range lits {
			lit := strLitOf[l]
			if fn == "ext:strings.ToLower" && strings.ToLower(lit) == lit || fn == "ext:strings.ToUpper" && strings.ToUpper(lit) == lit {
				extra = append(extra, Eq(UF(fn, SStr, l), l))
			}
		}
	}
	// case-insensitive comparison on literals
	if _, used := TP.UFs["ext:strings.EqualFold"]; used {
		for _, a := range lits {
			for _, b := range lits {
				extra = append(extra, Eq(UF("ext:strings.EqualFold", SBool, a, b), BoolLit(strings.EqualFold(strLitOf[a], strLitOf[b]))))
			}
		}
	}
	q.Assumes = append(extra, q.Assumes...)
}

type oblGroup struct {
	Name   string
	Kind   string
	Props  []string
	Pos    string
	Insts  []*Obligation
	Status string // discharged | failed | undecided | toolimit
	Solver string
	Ms     int64
}

func groupObls(obls []*Obligation) []*oblGroup {
	m := map[string]*oblGroup{}
	var order []string
	for _, o := range obls {
		g := m[o.Name]
		if g == nil {
			g = &oblGroup{Name: o.Name, Kind: o.Kind, Props: o.Props, Pos: o.Pos}
			m[o.Name] = g
			order = append(order, o.Name)
		}
		g.Insts = append(g.Insts, o)
	}
	var out []*oblGroup
	for _, n := range order {
		g := m[n]
		g.Status = "discharged"
		for _, o := range g.Insts {
			g.Ms += o.Res.Ms
			if o.Vacuity {
				// cover query: must be satisfiable
				switch o.Res.Status {
				case "sat":
				case "unsat":
					g.Status = "failed"
				default:
					if g.Status == "discharged" {
						g.Status = "undecided"
					}
				}
				g.Solver = o.Res.Solver
				continue
			}
			switch o.Res.Status {
			case "unsat":
				if g.Solver == "" || g.Solver == "simplifier" {
					g.Solver = o.Res.Solver
				}
			case "sat":
				g.Status = "failed"
				g.Solver = o.Res.Solver
			case "toolimit":
				if g.Status == "discharged" {
					g.Status = "toolimit"
				}
			default:
				if g.Status != "failed" {
					g.Status = "undecided"
				}
			}
		}
		out = append(out, g)
	}
	return out
}

// vacuityGuard: a discharged contract obligation counts only if at least one of its instances has
// satisfiable assumptions (otherwise contradictory assumptions "proved" it).
func (cr *checkRun) vacuityGuard(groups []*oblGroup) {
	var wg sync.WaitGroup
	sem := make(chan struct{}, 16)
	for _, g := range groups {
		switch g.Kind {
		case "pre", "post", "inv-entry", "inv-preserved", "monitor", "decreases", "frame", "lock", "immutable":
		default:
			continue
		}
		if g.Status != "discharged" {
			continue
		}
		var cands []*Obligation
		for _, o := range g.Insts {
			if o.Q != nil {
				cands = append(cands, o)
			}
		}
		if len(cands) < len(g.Insts) {
			continue // on some path the goal is true by simplification alone: valid whatever the assumptions
		}
		wg.Add(1)
		go func(g *oblGroup, cands []*Obligation) {
			defer wg.Done()
			sem <- struct{}{}
			defer func() { <-sem }()
			tries := 0
			for _, o := range cands {
				if tries >= 4 {
					return // undetermined after several infeasible paths: give the benefit of the doubt
				}
				tries++
				q := &Query{Assumes: o.Q.Assumes, Goal: False}
				text, ok := q.smtText(false, "")
				if !ok {
					return
				}
				st, _, _ := runSolver(solvers[0], text, cr.smtDir, fmt.Sprintf("vac%p", o), cr.timeoutMs/2)
				if st != "unsat" {
					return // sat or unknown: not vacuous
				}
			}
			if tries == len(cands) {
				g.Status = "vacuous"
			}
		}(g, cands)
	}
	wg.Wait()
}

func cmdCheck(args []string) {
	fs := flag.NewFlagSet("check", flag.ExitOnError)
	prop := fs.String("property", "", "property id")
	tier := fs.String("tier", "quick", "quick|thorough")
	writeBaseline := fs.Bool("write-baseline", false, "record the discharged obligations as the baseline (maintainer use, unchanged tree only)")
	verbose := fs.Bool("v", false, "verbose")
	child := fs.Bool("selftest-child", false, "internal: run on the tree named by VERIF_REPO, print verdict lines only (no evidence, no replay files)")
	fs.Parse(args)
	selftestChild = *child
	if *prop == "" {
		fmt.Fprintln(os.Stderr, "--property required")
		os.Exit(2)
	}
	t0 := time.Now()
	code := runCheck(*prop, *tier, *writeBaseline, *verbose, t0)
	os.Exit(code)
}

var selftestChild bool

func runCheck(prop, tier string, writeBaseline, verbose bool, t0 time.Time) int {
	prog, err := LoadProgram("verif")
	if err != nil {
		fmt.Fprintln(os.Stderr, "load:", err)
		// Does the tree build without the contract files? Then the code changed under the contracts
		// (a field or function they name is gone): the claimed obligations cannot be generated, which is
		// a violation report, not an error of the run.
		if plain, err2 := LoadProgram(""); err2 == nil {
			plain.Cleanup()
			if selftestChild {
				fmt.Printf("VIOLATION property=%s obligation=contracts-do-not-compile\n", prop)
				return 1
			}
			dir := filepath.Join(verifDir, "replays", prop)
			os.MkdirAll(dir, 0755)
			path := filepath.Join(dir, "contracts-do-not-compile.json")
			rec := map[string]interface{}{"property": prop, "obligation": "contracts-do-not-compile", "status": "missing",
				"reason": "the tree builds, but not together with the contract files (-tags verif): the code no longer has what the contracts of this property name, so none of its obligations can be generated", "load_error": err.Error()}
			b, _ := json.MarshalIndent(rec, "", " ")
			os.WriteFile(path, append(b, '\n'), 0644)
			fmt.Printf("VIOLATION property=%s replay=%s obligation=contracts-do-not-compile no-failing-input-found\n", prop, path)
			return 1
		}
		// a tree that does not build cannot be checked; this is an error of the run, not a verdict
		return 2
	}
	defer prog.Cleanup()
	registerRuntimeTypes(prog)
	specs, err := LoadSpecs(prog.RepoDir, filepath.Join(verifDir, "contracts", "extern"))
	if err != nil {
		fmt.Fprintln(os.Stderr, "specs:", err)
		return 2
	}
	globalSpecs = specs
	scanROM(prog, NewExec(prog, specs))
	cr := &checkRun{prop: prop, tier: tier, prog: prog, specs: specs, abstract: map[string]int{}, assumed: map[string]bool{}, used: map[string]bool{}, smtDir: prog.Scratch}
	cr.timeoutMs = 10000
	if tier == "thorough" {
		cr.timeoutMs = 60000
	}
	cr.generate()
	cr.readsObligations()
	tGen := time.Since(t0)
	if kinds := sweepProps[prop]; kinds != nil {
		var keep []*Obligation
		for _, o := range cr.obls {
			// functions carrying no property at all are verified only in the sweeps: all their obligations count here
			orphan := false
			if sp := cr.specs.Funcs[o.Func]; sp != nil && len(sp.Props) == 0 && prop == "C17" {
				orphan = true
			}
			if kinds[o.Kind] || hasProp(o.Props, prop) && o.Kind != "nil" && o.Kind != "safety" || o.Kind == "vacuity" || orphan {
				keep = append(keep, o)
			}
		}
		cr.obls = keep
	}
	cr.solveAll()
	groups := groupObls(cr.obls)
	cr.vacuityGuard(groups)
	// a path of a function under contract that the engine had to abandon (construct outside the supported
	// subset, specification that cannot be evaluated there) leaves obligations ungenerated: never silent
	{
		seenL := map[string]bool{}
		for _, l := range cr.limits {
			if seenL[l] {
				continue
			}
			seenL[l] = true
			fn := l
			if i := strings.Index(l, ": "); i > 0 {
				fn = l[:i]
			}
			groups = append(groups, &oblGroup{Name: fn + "#toolimit:" + strings.TrimSpace(strings.TrimPrefix(l, fn+":")), Kind: "toolimit", Status: "toolimit", Solver: "engine"})
		}
	}
	// a channel declared never closed ('chan f open') that some function outside any contract closes:
	// the assumption made at every receive from it is false - reported like a failed obligation
	for _, w := range immutableWriters(cr.prog, cr.specs) {
		if strings.Contains(w, "which is declared never closed") {
			fn := strings.Fields(w)[0]
			groups = append(groups, &oblGroup{Name: fn + "#immutable:close-of-open-channel", Kind: "immutable", Status: "failed", Solver: "scan"})
		}
	}

	var base map[string]*BaselineEntry
	_ = loadJSON(filepath.Join(verifDir, "baseline", "obligations.json"), &base)
	if base == nil {
		base = map[string]*BaselineEntry{}
	}
	var known []KnownFinding
	_ = loadJSON(filepath.Join(verifDir, "known_findings.json"), &known)

	if writeBaseline {
		be := &BaselineEntry{}
		for _, g := range groups {
			slow := false
			for _, o := range g.Insts {
				lim := int64(cr.timeoutMs) / 5
				if o.Q != nil && o.Q.Cheap {
					lim = 300 // cheap kinds get one attempt of 1.5 s on the full query
				}
				if o.Res != nil && (o.Res.Ms >= lim || strings.HasSuffix(o.Res.Solver, "(short)")) {
					// a query close to the time limit, or a cheap-kind obligation that needed quantifier
					// instantiation within its single short attempt, is an unstable one: not claimed
					slow = true
				}
			}
			if g.Status == "discharged" && !slow {
				be.Claimed = append(be.Claimed, g.Name)
			} else {
				be.Unclaimed = append(be.Unclaimed, g.Name+" ["+g.Status+"]")
			}
		}
		sort.Strings(be.Claimed)
		sort.Strings(be.Unclaimed)
		// maintainer guard: an obligation that the previous baseline claimed and that is now generated
		// but not discharged must not silently leave the baseline
		if prev := base[prop]; prev != nil {
			was := map[string]bool{}
			for _, c := range prev.Claimed {
				was[c] = true
			}
			wasUn := map[string]bool{}
			for _, u := range prev.Unclaimed {
				if i := strings.LastIndex(u, " ["); i >= 0 {
					u = u[:i]
				}
				wasUn[u] = true
			}
			for _, g := range groups {
				if g.Status == "discharged" {
					continue
				}
				if was[g.Name] {
					fmt.Printf("  WARNING dropped from the baseline (was claimed, now %s): %s\n", g.Status, g.Name)
				} else if !wasUn[g.Name] && g.Kind != "nil" {
					fmt.Printf("  WARNING new obligation not discharged (%s): %s\n", g.Status, g.Name)
				}
			}
		}
		// names of parameters and locals of the functions under contract (rename tolerance, locals.go)
		{
			loadBaseLocals()
			if baseLocals == nil {
				baseLocals = map[string]*FuncLocals{}
			}
			seen := map[string]bool{}
			for name := range cr.specs.Funcs {
				seen[name] = true
			}
			for key := range cr.specs.Loops {
				if i := strings.LastIndex(key, "#"); i > 0 {
					seen[key[:i]] = true
				}
			}
			for name := range seen {
				if fn := cr.prog.FindFunc(name); fn != nil && fn.Blocks != nil {
					baseLocals[name] = funcLocalsOf(fn)
				}
			}
			os.MkdirAll(filepath.Join(verifDir, "baseline"), 0755)
			lb, _ := json.MarshalIndent(baseLocals, "", " ")
			os.WriteFile(filepath.Join(verifDir, "baseline", "locals.json"), append(lb, '\n'), 0644)
		}
		base[prop] = be
		os.MkdirAll(filepath.Join(verifDir, "baseline"), 0755)
		b, _ := json.MarshalIndent(base, "", " ")
		os.WriteFile(filepath.Join(verifDir, "baseline", "obligations.json"), append(b, '\n'), 0644)
		fmt.Printf("baseline for %s: %d claimed, %d unclaimed\n", prop, len(be.Claimed), len(be.Unclaimed))
		for _, u := range be.Unclaimed {
			fmt.Println("  unclaimed:", u)
		}
		for _, l := range cr.limits {
			fmt.Println("  WARNING tool limit (paths of a function under contract were abandoned; fix before claiming):", l)
		}
		return 0
	}

	be := base[prop]
	if be == nil {
		be = &BaselineEntry{}
	}
	claimed := map[string]bool{}
	for _, c := range be.Claimed {
		claimed[c] = true
	}
	unclaimed := map[string]bool{}
	for _, u := range be.Unclaimed {
		if i := strings.LastIndex(u, " ["); i >= 0 {
			u = u[:i]
		}
		unclaimed[u] = true
	}

	type violation struct {
		g      *oblGroup
		reason string
	}
	var viols []violation
	var knownSeen []string
	nClaimed, nDischarged := 0, 0
	seenNow := map[string]bool{}
	bySolver := map[string]int{}
	var solverMs int64
	var notes []string
	for _, g := range groups {
		seenNow[g.Name] = true
		solverMs += g.Ms
		if verbose {
			fmt.Printf("  %-10s %-8s %6dms %s (%d inst) %s\n", g.Status, g.Solver, g.Ms, g.Name, len(g.Insts), g.Pos)
		}
		kf := findKnown(known, prop, g.Name)
		if g.Status == "discharged" {
			if claimed[g.Name] || !unclaimed[g.Name] {
				nClaimed++
				nDischarged++
				bySolver[g.Solver]++
			}
			continue
		}
		if kf != nil && kf.Status == "known" {
			knownSeen = append(knownSeen, fmt.Sprintf("KNOWN-FINDING: property=%s %s [%s]", prop, kf.What, g.Name))
			continue
		}
		switch {
		case claimed[g.Name]:
			nClaimed++
			viols = append(viols, violation{g, "claimed obligation no longer discharged (" + g.Status + ")"})
		case unclaimed[g.Name]:
			// never claimed: undecided on the unchanged tree as well
		case g.Kind == "nil" && g.Status != "failed":
			notes = append(notes, "UNDECIDED-NEW "+g.Name)
		case g.Kind == "nil":
			notes = append(notes, "UNDECIDED-NEW (nil-ness is not tracked across the heap) "+g.Name)
		default:
			nClaimed++
			viols = append(viols, violation{g, "new obligation of a function under contract is not discharged (" + g.Status + ")"})
		}
	}
	// claimed contract obligations that are no longer generated
	for name := range claimed {
		if seenNow[name] {
			continue
		}
		kind := ""
		if i := strings.Index(name, "#"); i >= 0 {
			rest := name[i+1:]
			if j := strings.Index(rest, ":"); j >= 0 {
				kind = rest[:j]
			}
		}
		switch kind {
		case "post", "monitor", "decreases", "inv-entry", "inv-preserved", "vacuity":
			nClaimed++
			g := &oblGroup{Name: name, Kind: kind, Status: "missing"}
			if kf := findKnown(known, prop, name); kf != nil && kf.Status == "known" {
				continue
			}
			viols = append(viols, violation{g, "claimed obligation is no longer generated (function missing, renamed, or beyond a tool limit: " + strings.Join(cr.limits, "; ") + ")"})
		}
	}
	sort.Slice(viols, func(i, j int) bool { return viols[i].g.Name < viols[j].g.Name })

	for _, k := range knownSeen {
		fmt.Println(k)
	}
	for _, n := range notes {
		fmt.Println(n)
	}
	if selftestChild {
		for _, v := range viols {
			fmt.Printf("VIOLATION property=%s obligation=%s\n", prop, v.g.Name)
		}
		fmt.Printf("property %s: %d violations\n", prop, len(viols))
		if len(viols) > 0 {
			return 1
		}
		return 0
	}
	// thorough tier: every discharged obligation is confirmed by a second, independent solver, and the
	// must-fail corpus (seeded changes and reverted fixes of this property) is replayed on scratch copies
	if tier == "thorough" {
		agree, undecided, disagree := cr.crossCheck(groups, claimed)
		cr.extra = map[string]interface{}{"cross_check": map[string]interface{}{"confirmed_by_second_solver": agree, "second_solver_undecided": undecided, "disagreements": len(disagree)}}
		for _, g := range disagree {
			viols = append(viols, violation{g, "solvers disagree: discharged by " + g.Solver + ", refuted by a second solver"})
		}
		st := selfTest(prop, known)
		cr.extra["must_fail_corpus"] = st
		for _, l := range st {
			fmt.Println(l)
		}
	}
	replayDir := filepath.Join(verifDir, "replays", prop)
	for _, v := range viols {
		path, repro := writeReplay(cr, replayDir, prop, v.g, v.reason)
		suffix := ""
		if !repro {
			suffix = " no-failing-input-found"
		}
		fmt.Printf("VIOLATION property=%s replay=%s obligation=%s%s\n", prop, path, v.g.Name, suffix)
	}

	// evidence
	writeEvidence(cr, prop, tier, groups, nClaimed, nDischarged, bySolver, solverMs, len(viols), knownSeen, notes, time.Since(t0).Seconds(), tGen.Seconds())
	fmt.Printf("property %s: %d functions under contract, %d obligations claimed, %d discharged, %d violations, %d known findings, %.1fs\n",
		prop, len(cr.funcs), nClaimed, nDischarged, len(viols), len(knownSeen), time.Since(t0).Seconds())
	if nClaimed == 0 {
		fmt.Println("ERROR: no obligations generated for", prop)
		return 2
	}
	if len(viols) > 0 {
		return 1
	}
	return 0
}

func findKnown(known []KnownFinding, prop, name string) *KnownFinding {
	for i := range known {
		if known[i].Property == prop && known[i].Obligation == name {
			return &known[i]
		}
	}
	return nil
}

func writeEvidence(cr *checkRun, prop, tier string, groups []*oblGroup, nClaimed, nDischarged int, bySolver map[string]int, solverMs int64, nviol int, known, notes []string, wall, gen float64) {
	seed := 0
	fmt.Sscanf(os.Getenv("VERIF_SEED"), "%d", &seed)
	var samples []map[string]interface{}
	for _, g := range groups {
		if len(samples) >= 12 {
			break
		}
		if g.Kind == "post" || g.Kind == "monitor" || g.Kind == "inv-preserved" || g.Kind == "decreases" || len(samples) < 4 {
			samples = append(samples, map[string]interface{}{"obligation": g.Name, "status": g.Status, "solver": g.Solver, "ms": g.Ms, "instances": len(g.Insts), "at": g.Pos})
		}
	}
	var assumptions []string
	for k := range cr.assumed {
		assumptions = append(assumptions, "assumed contract (extern/trusted): "+k)
	}
	var abs []string
	for k, v := range cr.abstract {
		abs = append(abs, fmt.Sprintf("%s (x%d)", k, v))
	}
	sort.Strings(abs)
	sort.Strings(assumptions)
	assumptions = append(assumptions,
		"integers: machine arithmetic (Int + explicit wrap), no overflow assumption; slice and string lengths are at most 2^48 (address space)",
		"extern-frame: library functions without contract do not write repository-typed heap locations unless passed a callback",
		"atomics and sync.Map/atomic.Value operations are modelled sequentially on ghost state (DESIGN §5.3)",
		"pointer parameters of non-struct element type do not alias struct fields",
	)
	for _, w := range immutableWriters(cr.prog, cr.specs) {
		if strings.Contains(w, "which is declared never closed") {
			continue
		}
		if strings.Contains(w, "closes a channel") {
			assumptions = append(assumptions, w)
			continue
		}
		assumptions = append(assumptions, "write-once discipline not checked (function not under contract): "+w)
	}
	var unclaimedNow []string
	for _, g := range groups {
		if g.Status != "discharged" {
			unclaimedNow = append(unclaimedNow, g.Name+" ["+g.Status+"]")
		}
	}
	ev := map[string]interface{}{
		"property_id": prop,
		"tier":        tier,
		"seed":        seed,
		"level":       "proof",
		"coverage": map[string]interface{}{
			"obligations":              nClaimed,
			"discharged":               nDischarged,
			"checker_cmd":              fmt.Sprintf("./bin/vcgo check --property %s --tier %s", prop, tier),
			"trusted_base":             []string{"golang.org/x/tools go/ssa (v0.29.0)", "vcgo VC generator (/verif/engine)", "z3 4.8.12 / z3 5.1.0 / cvc5 1.0.3", "extern contracts listed under assumptions", "concurrency abstractions of DESIGN §5"},
			"functions_under_contract": cr.funcs,
			"by_backend":               bySolver,
			"solver_ms_total":          solverMs,
			"generation_s":             gen,
			"samples":                  samples,
			"abstracted":               abs,
			"tool_limits":              cr.limits,
			"not_discharged":           unclaimedNow,
			"known_findings":           known,
			"notes":                    notes,
			"contracts_relied_on":      sortedSet(cr.used),
			"thorough":                 cr.extra,
		},
		"assumptions": assumptions,
		"wall_s":      wall,
		"violations":  nviol,
	}
	os.MkdirAll(filepath.Join(verifDir, "evidence"), 0755)
	b, _ := json.MarshalIndent(ev, "", " ")
	os.WriteFile(filepath.Join(verifDir, "evidence", prop+".json"), append(b, '\n'), 0644)
}

func sortedSet(m map[string]bool) []string {
	var out []string
	for k := range m {
		out = append(out, k)
	}
	sort.Strings(out)
	return out
}

// writeReplay records a violation; returns the path and whether a failing input was reproduced on the real code.
func writeReplay(cr *checkRun, dir, prop string, g *oblGroup, reason string) (string, bool) {
	os.MkdirAll(dir, 0755)
	safe := strings.NewReplacer("/", "_", " ", "_", "#", "-", ":", "-", "[", "(", "]", ")", "*", "x", "…", "", "\"", "", "'", "", "|", "", "&", "and", "<", "lt", ">", "gt").Replace(g.Name)
	if len(safe) > 150 {
		safe = safe[:150]
	}
	path := filepath.Join(dir, safe+".json")
	rec := map[string]interface{}{
		"property":   prop,
		"obligation": g.Name,
		"kind":       g.Kind,
		"status":     g.Status,
		"reason":     reason,
		"at":         g.Pos,
	}
	repro := false
	for _, o := range g.Insts {
		if o.Res == nil || o.Res.Status == "unsat" {
			continue
		}
		rec["solver"] = o.Res.Solver
		rec["solver_output"] = o.Res.Output
		rec["tried"] = o.Res.Tried
		rec["model"] = o.Res.Model
		rec["smt2"] = o.Res.SMTText
		rec["path_trace"] = o.Trace
		if o.Res.Status == "sat" {
			ok, test, out := tryReplay(cr, o)
			rec["replay_test"] = test
			rec["replay_output"] = out
			if o.ReplayPkg != nil {
				rec["replay_pkg"] = o.ReplayPkg.Path()
				rec["module"] = cr.prog.ModPath
			}
			if ok {
				repro = true
			}
		}
		break
	}
	rec["reproduced_on_real_code"] = repro
	b, _ := json.MarshalIndent(rec, "", " ")
	os.WriteFile(path, append(b, '\n'), 0644)
	return path, repro
}

// crossCheck re-solves every discharged claimed obligation with a solver other than the one that
// discharged it. Returns counts and the groups a second solver refutes.
func (cr *checkRun) crossCheck(groups []*oblGroup, claimed map[string]bool) (agree, undecided int, disagree []*oblGroup) {
	type job struct {
		g *oblGroup
		o *Obligation
	}
	var jobs []job
	for _, g := range groups {
		if g.Status != "discharged" || !claimed[g.Name] || g.Kind == "vacuity" {
			continue
		}
		for _, o := range g.Insts {
			if o.Res != nil && o.Res.Status == "unsat" && o.Res.SMTText != "" {
				jobs = append(jobs, job{g, o})
			}
		}
	}
	var mu sync.Mutex
	bad := map[*oblGroup]bool{}
	sem := make(chan struct{}, 16)
	var wg sync.WaitGroup
	for i, j := range jobs {
		wg.Add(1)
		sem <- struct{}{}
		go func(i int, j job) {
			defer wg.Done()
			defer func() { <-sem }()
			// the other two solvers, in turn, until one decides
			st := "unknown"
			for _, sp := range solvers {
				if strings.HasPrefix(j.o.Res.Solver, sp.name) {
					continue
				}
				r, _, _ := runSolver(sp, j.o.Res.SMTText, cr.smtDir, fmt.Sprintf("x%d", i), 10000)
				if r == "unsat" || r == "sat" {
					st = r
					break
				}
			}
			mu.Lock()
			switch st {
			case "unsat":
				agree++
			case "sat":
				bad[j.g] = true
			default:
				undecided++
			}
			mu.Unlock()
		}(i, j)
	}
	wg.Wait()
	for g := range bad {
		disagree = append(disagree, g)
	}
	sort.Slice(disagree, func(a, b int) bool { return disagree[a].Name < disagree[b].Name })
	return
}

// selfTest replays the must-fail corpus of a property: every seeded change under /verif/seeded whose
// meta.json names the property, and every repaired defect recorded for it (the fix is reverted), is
// applied to a scratch copy of the current tree, and the quick check is run on that copy. A change
// that is not reported is a weakness of the check and is listed (it does not change the verdict on
// the current tree). Scratch copies live under $TMPDIR and are removed.
func selfTest(prop string, known []KnownFinding) []string {
	var out []string
	type item struct {
		name, patch string
		reverse     bool
	}
	var items []item
	ents, _ := os.ReadDir(filepath.Join(verifDir, "seeded"))
	for _, e := range ents {
		var meta struct {
			Property string `json:"property"`
			Status   string `json:"status"`
		}
		if loadJSON(filepath.Join(verifDir, "seeded", e.Name(), "meta.json"), &meta) != nil || meta.Property != prop || meta.Status == "superseded" {
			continue
		}
		items = append(items, item{"seed " + e.Name(), filepath.Join(verifDir, "seeded", e.Name(), "patch.diff"), false})
	}
	seenCommit := map[string]bool{}
	for _, k := range known {
		if k.Property != prop || k.Status != "fixed" || k.Commit == "" || seenCommit[k.Commit] {
			continue
		}
		seenCommit[k.Commit] = true
		items = append(items, item{"reverted fix " + k.Commit, k.Commit, true})
	}
	self, err := os.Executable()
	if err != nil {
		return []string{"SELFTEST-SKIPPED: " + err.Error()}
	}
	for _, it := range items {
		scratch, err := makeScratch()
		if err != nil {
			out = append(out, "SELFTEST-SKIPPED "+it.name+": "+err.Error())
			continue
		}
		func() {
			defer os.RemoveAll(scratch)
			tree := filepath.Join(scratch, "tree")
			if b, err := exec.Command("rsync", "-a", "--exclude", ".git", repoDir()+"/", tree+"/").CombinedOutput(); err != nil {
				out = append(out, "SELFTEST-SKIPPED "+it.name+": copy failed: "+firstLines(string(b), 1))
				return
			}
			patch := it.patch
			args := []string{"apply"}
			// a fix whose reversal no longer applies mechanically (later commits changed the same lines) has a
			// hand-rebased reversal filed under seeded/reverts/<commit>.diff (a forward patch)
			if rb := filepath.Join(verifDir, "seeded", "reverts", it.patch+".diff"); it.reverse && fileExists(rb) {
				patch = rb
			} else if it.reverse {
				diff, err := exec.Command("git", "-C", repoDir(), "diff", it.patch+"^", it.patch, "--", ".", ":(exclude)*/zz_verif_*").Output()
				if err != nil {
					out = append(out, "SELFTEST-SKIPPED "+it.name+": no such commit")
					return
				}
				patch = filepath.Join(scratch, "fix.diff")
				os.WriteFile(patch, diff, 0644)
				args = append(args, "-R")
			}
			cmd := exec.Command("git", append(args, patch)...)
			cmd.Dir = tree
			b, err := cmd.CombinedOutput()
			if err != nil {
				// later commits touched neighbouring lines: retry with minimal context
				cmd = exec.Command("git", append(append([]string{}, args...), "-C1", "--recount", patch)...)
				cmd.Dir = tree
				b, err = cmd.CombinedOutput()
			}
			if err != nil {
				out = append(out, "SELFTEST-SKIPPED "+it.name+": does not apply to the current tree: "+firstLines(string(b), 1))
				return
			}
			c := exec.Command(self, "check", "--property", prop, "--tier", "quick", "--selftest-child")
			c.Env = append(os.Environ(), "VERIF_REPO="+tree)
			c.Dir = verifDir
			b, _ = c.CombinedOutput()
			n := strings.Count(string(b), "VIOLATION property=")
			if n > 0 {
				first := ""
				for _, l := range strings.Split(string(b), "\n") {
					if strings.HasPrefix(l, "VIOLATION") {
						first = l[strings.Index(l, "obligation=")+len("obligation="):]
						break
					}
				}
				out = append(out, fmt.Sprintf("SELFTEST %s: detected (%d obligations, first: %s)", it.name, n, first))
			} else if c.ProcessState != nil && c.ProcessState.ExitCode() == 2 {
				out = append(out, "SELFTEST "+it.name+": detected (the changed tree cannot be checked: "+firstLines(string(b), 1)+")")
			} else {
				out = append(out, "SELFTEST-MISS "+it.name+": the check does not report this change")
			}
		}()
	}
	return out
}

func fileExists(p string) bool {
	st, err := os.Stat(p)
	return err == nil && !st.IsDir()
}
