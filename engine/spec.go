package main

import (
	"bufio"
	"fmt"
	"go/ast"
	"go/parser"
	"os"
	"path/filepath"
	"regexp"
	"strconv"
	"strings"
)

type Clause struct {
	Text  string
	Expr  ast.Expr
	Props []string
	Label string
}

type FuncSpec struct {
	Name      string // pkg.Recv.Func or pkg.Func (short package name), closures pkg.F$1
	File      string
	Requires  []Clause
	Ensures   []Clause
	Defines   []Clause // ghost-defining postconditions: assumed at call sites, not checked against the body (listed as assumptions)
	Modifies  []Clause // each an lvalue expression; empty + !ModAll = modifies nothing
	ModAll    bool     // no frame stated: callee may modify anything (default)
	ModNone   bool
	Decreases []ast.Expr
	Pure      bool
	Inline    bool
	Reads     []string // parameters / receiver fields the body must use ('reads' directive, checked syntactically)
	Trusted   bool // assumed, not verified (extern / assume)
	Props     []string
	Acquires  []string
	NoHolds   []string
	Iface     bool
	Verify    bool // verify body
	NilStrict bool
	HoldsAtEntry []string
	sawStar   bool
	Lets      map[string]ast.Expr // abbreviations usable in the clauses of this block
	PreservesTypes []string // classes (type names) left untouched even under 'modifies *'
	PreservesHeld bool // the callee does not write state guarded by locks the caller holds (no re-entry into the monitor)
	Locals    []GhostLocal // specification-only recorders owned by this function (initialised at entry, invisible to callers' frames)
	InitSets  []*GhostSet // ghost assignments executed when verification of the body starts (initial value of a ghost the body updates)
	EntrySets []*GhostSet // ghost assignments that happen when the function is called (definitional)
	Events    []Clause // ghost counters that calling this function increments (the call itself is the event)
	GhostSets []*GhostSet
	Escapes   []string // parameters whose pointee is retained by the callee (it may write it in later calls)
	ModEscaped bool    // the callee may write every object that escaped earlier
	Known     map[string]Clause // label -> region in which the clause is a recorded finding
	Replay    ast.Expr          // call to a replay builder (verif-tagged Go function) with entry-state arguments
	ReplayText string
	ReplayPost ast.Expr // like Replay, arguments evaluated in the post state (for post obligations)
	Extern    bool     // contract of a dependency (file under contracts/extern)
	Captures  []Clause // closures: facts about the captured variables, checked where the closure is created and assumed in its body (captured variables must be assigned once)
	Implementers []string // iface blocks: runtime types whose method is verified against this contract
	ImplOf    *FuncSpec   // synthesized spec of an implementer check: the interface contract it is checked against
	ImplType  string
}

type GhostLocal struct {
	Name string
	Init ast.Expr
}

// GhostSet: ghost assignments executed before/after the k-th call to Callee inside the function
// (specification-only state; keyed by call ordinal so that no function body is edited).
type GhostSet struct {
	When    string // "before" | "after"
	Callee  string
	Ord     int
	Names   []string
	Targets []ast.Expr // nil: ghost global/local Names[i]; else the ghost field expression x.$g
	Exprs   []ast.Expr
}

var syncViewRe = regexp.MustCompile(`^(\w+)\((\w+)\)\s*:\s*\$(\w+)\s*,\s*\$(\w+)\s*,\s*\$(\w+)(?:\s+free\s+(\w+))?\s*$`)

type LoopSpec struct {
	Func       string
	Ord        int
	Invariants []Clause
	Decreases  []ast.Expr
	Props      []string
}

type TypeSpec struct {
	Name      string // pkg.Type
	Guarded   map[string]string // field -> mutex field
	Immutable map[string]bool
	Ghost     map[string]string // ghost field -> "int"|"bool"
	Invariant []Clause
	SyncMapInv map[string]Clause // field -> predicate over k, v: what the sync.Map held by that field contains
	SyncView  map[string]*SyncView // field -> ghost view of the sync.Map held by that field
	ChanOpen  map[string]bool   // fields whose channel is declared never closed ('chan f open: ...'): closing it is an obligation failure
	ChanInv   map[string]Clause // field -> predicate over v: every value sent on the channel held by that field satisfies it (obligation at sends, assumption at receives)
	AssumedInv []Clause // assumed when the lock is taken / at inv(x); not checked (listed as assumptions)
	Props     []string
}

// SyncView: 'syncview f(K): $has, $tag, $val [free ch]' - the sync.Map held by field f, whose keys are of the
// integer type K, is viewed through three ghost fields of the owning object (presence, and the dynamic type
// and value of the entry); with 'free ch' the channel field ch is the map's free list: a key is stored only
// after it was taken from ch, and put back on ch only after its entry was deleted.
type SyncView struct {
	Field, Key, Has, Tag, Val, Free string
}

type Specs struct {
	Funcs  map[string]*FuncSpec
	Loops  map[string]*LoopSpec // "func#ord"
	Types  map[string]*TypeSpec
	Ifaces map[string]*FuncSpec // pkg.Iface.Method
	Order  []string
	Assumes []string
	GhostVars map[string]string
	GhostPkg  map[string]string // package (directory name) whose scope resolves the ghost variable's type
	GhostLocal map[string]bool
	Macros     map[string]*Macro
	Opaques    map[string]*Macro // predicates over immutable state, folded into an uninterpreted symbol
	SpecFns    map[string]*Macro // recursive integer specification functions (unfolded once per occurrence)
	StrictFields map[string]bool // "<type>.<field>" classes framed strictly (type block directive 'strict:')
	OwnedMaps  map[string]bool // map classes ("map:<type>") whose contents are framed strictly: 'modifies *' does not cover them
	ImmutableElems map[string][]string // slice element classes ("[]T") written only in arrays fresh to the writer -> properties
}

// Macro: a named specification predicate/term, `macro name(a, b) = expr` (call by value).
type Macro struct {
	Params []string
	Body   ast.Expr
}

var propTagRe = regexp.MustCompile(`\[((?:C\d+)(?:\s*,\s*C\d+)*)\]\s*$`)
var labelRe = regexp.MustCompile(`^([a-zA-Z_][a-zA-Z0-9_-]*):\s+`)

func splitProps(s string) (string, []string) {
	m := propTagRe.FindStringSubmatch(s)
	if m == nil {
		return strings.TrimSpace(s), nil
	}
	s = strings.TrimSpace(s[:len(s)-len(m[0])])
	var ps []string
	for _, p := range strings.Split(m[1], ",") {
		ps = append(ps, strings.TrimSpace(p))
	}
	return s, ps
}

// rewriteImplies turns `a ==> b` (lowest precedence, right assoc) into implies(a, b), recursively.
func rewriteImplies(s string) string {
	parts := splitTop(s, ",")
	if len(parts) > 1 {
		for i := range parts {
			parts[i] = rewriteImplies(parts[i])
		}
		return strings.Join(parts, ",")
	}
	if i := indexTop(s, "==>"); i >= 0 {
		return "implies(" + rewriteImplies(s[:i]) + ", " + rewriteImplies(s[i+3:]) + ")"
	}
	// descend into bracket groups
	var sb strings.Builder
	depth := 0
	start := -1
	inStr := byte(0)
	for i := 0; i < len(s); i++ {
		c := s[i]
		if inStr != 0 {
			if c == '\\' {
				if depth == 0 {
					sb.WriteByte(c)
					if i+1 < len(s) {
						sb.WriteByte(s[i+1])
					}
				}
				i++
				continue
			}
			if c == inStr {
				inStr = 0
			}
			if depth == 0 {
				sb.WriteByte(c)
			}
			continue
		}
		if c == '"' || c == '\'' || c == '`' {
			inStr = c
			if depth == 0 {
				sb.WriteByte(c)
			}
			continue
		}
		if c == '(' || c == '[' || c == '{' {
			if depth == 0 {
				sb.WriteByte(c)
				start = i + 1
			}
			depth++
			continue
		}
		if c == ')' || c == ']' || c == '}' {
			depth--
			if depth == 0 {
				sb.WriteString(rewriteImplies(s[start:i]))
				sb.WriteByte(c)
			}
			continue
		}
		if depth == 0 {
			sb.WriteByte(c)
		}
	}
	return sb.String()
}

func indexTop(s, sep string) int {
	depth := 0
	inStr := byte(0)
	for i := 0; i < len(s); i++ {
		c := s[i]
		if inStr != 0 {
			if c == '\\' {
				i++
			} else if c == inStr {
				inStr = 0
			}
			continue
		}
		switch c {
		case '"', '\'', '`':
			inStr = c
		case '(', '[', '{':
			depth++
		case ')', ']', '}':
			depth--
		default:
			if depth == 0 && strings.HasPrefix(s[i:], sep) {
				return i
			}
		}
	}
	return -1
}

func splitTop(s, sep string) []string {
	var out []string
	for {
		i := indexTop(s, sep)
		if i < 0 {
			out = append(out, s)
			return out
		}
		out = append(out, s[:i])
		s = s[i+len(sep):]
	}
}

func parseSpecExpr(text string) (ast.Expr, error) {
	t := strings.ReplaceAll(text, "$", "ghost_")
	t = strings.ReplaceAll(t, "[*]", "[all]")
	t = rewriteImplies(t)
	e, err := parser.ParseExpr(t)
	if err != nil {
		return nil, fmt.Errorf("spec expression %q: %v", text, err)
	}
	return e, nil
}

func mkClause(text string) (Clause, error) {
	text, props := splitProps(text)
	label := ""
	if m := labelRe.FindStringSubmatch(text); m != nil && !strings.HasPrefix(text, "forall") {
		label = m[1]
		text = text[len(m[0]):]
	}
	e, err := parseSpecExpr(text)
	return Clause{Text: text, Expr: e, Props: props, Label: label}, err
}

// LoadSpecs reads //@ blocks from every zz_verif*.go file under the repo and *.spec under extern dir.
func LoadSpecs(repo string, externDir string) (*Specs, error) {
	sp := &Specs{Funcs: map[string]*FuncSpec{}, Loops: map[string]*LoopSpec{}, Types: map[string]*TypeSpec{}, Ifaces: map[string]*FuncSpec{}, GhostVars: map[string]string{}, GhostPkg: map[string]string{}, GhostLocal: map[string]bool{}, Macros: map[string]*Macro{}, SpecFns: map[string]*Macro{}, Opaques: map[string]*Macro{}, ImmutableElems: map[string][]string{}, OwnedMaps: map[string]bool{}, StrictFields: map[string]bool{}}
	var files []string
	for _, pk := range repoPkgs {
		m, _ := filepath.Glob(filepath.Join(repo, pk, "zz_verif*.go"))
		files = append(files, m...)
	}
	ext, _ := filepath.Glob(filepath.Join(externDir, "*.spec"))
	for _, f := range files {
		if err := sp.parseFile(f, false); err != nil {
			return nil, err
		}
	}
	for _, f := range ext {
		if err := sp.parseFile(f, true); err != nil {
			return nil, err
		}
	}
	return sp, nil
}

func (sp *Specs) parseFile(path string, extern bool) error {
	fh, err := os.Open(path)
	if err != nil {
		return err
	}
	defer fh.Close()
	sc := bufio.NewScanner(fh)
	sc.Buffer(make([]byte, 1<<20), 1<<20)
	var curF *FuncSpec
	var curL *LoopSpec
	var curT *TypeSpec
	ln := 0
	for sc.Scan() {
		ln++
		line := strings.TrimSpace(sc.Text())
		if !strings.HasPrefix(line, "//@") {
			continue
		}
		line = strings.TrimSpace(line[3:])
		if line == "" || strings.HasPrefix(line, "#") {
			continue
		}
		fail := func(e error) error { return fmt.Errorf("%s:%d: %v", path, ln, e) }
		word, rest := line, ""
		if i := strings.IndexAny(line, " \t"); i >= 0 {
			word, rest = line[:i], strings.TrimSpace(line[i:])
		}
		switch word {
		case "func", "extern", "iface":
			rest, props := splitProps(rest)
			curL, curT = nil, nil
			curF = &FuncSpec{Name: rest, File: path, Props: props, ModAll: true, Verify: word == "func" && !extern}
			if word == "extern" || extern {
				curF.Trusted = true
				curF.Verify = false
				curF.Extern = true
			}
			if word == "iface" {
				curF.Iface = true
				curF.Verify = false
				sp.Ifaces[rest] = curF
			} else {
				if _, dup := sp.Funcs[rest]; dup {
					return fail(fmt.Errorf("duplicate contract for %s", rest))
				}
				sp.Funcs[rest] = curF
				sp.Order = append(sp.Order, rest)
			}
		case "loop":
			rest, props := splitProps(rest)
			curF, curT = nil, nil
			fs := strings.Fields(rest)
			if len(fs) != 2 || !strings.HasPrefix(fs[1], "#") {
				return fail(fmt.Errorf("loop needs <func> #<k>"))
			}
			k, err := strconv.Atoi(fs[1][1:])
			if err != nil {
				return fail(err)
			}
			curL = &LoopSpec{Func: fs[0], Ord: k, Props: props}
			sp.Loops[fmt.Sprintf("%s#%d", fs[0], k)] = curL
		case "type":
			rest, props := splitProps(rest)
			curF, curL = nil, nil
			if old, ok := sp.Types[rest]; ok {
				curT = old // several blocks for one type are merged
				curT.Props = mergeProps(curT.Props, props)
			} else {
				curT = &TypeSpec{Name: rest, Guarded: map[string]string{}, Immutable: map[string]bool{}, Ghost: map[string]string{}, Props: props}
				sp.Types[rest] = curT
			}
		case "defines":
			if curF == nil {
				return fail(fmt.Errorf("defines outside func block"))
			}
			c, err := mkClause(rest)
			if err != nil {
				return fail(err)
			}
			curF.Defines = append(curF.Defines, c)
			sp.Assumes = append(sp.Assumes, curF.Name+" defines "+c.Text)
		case "requires", "ensures", "invariant", "modifies":
			if word == "modifies" && curF != nil {
				r, _ := splitProps(rest)
				star, real := false, false
				for _, part := range splitTop(r, ",") {
					part = strings.TrimSpace(part)
					switch part {
					case "*":
						star = true
					case "nothing":
						real = true
					case "escaped":
						curF.ModEscaped = true
						real = true
					default:
						c, err := mkClause(part)
						if err != nil {
							return fail(err)
						}
						curF.Modifies = append(curF.Modifies, c)
						if !strings.Contains(part, "$") {
							real = true
						}
					}
				}
				// an explicit modifies clause is complete: the real heap may change only where listed ('*' = anywhere)
				_ = real
				if star {
					curF.ModAll = true
				} else if !curF.sawStar {
					curF.ModAll = false
				}
				if star {
					curF.sawStar = true
				}
				continue
			}
			c, err := mkClause(rest)
			if err != nil {
				return fail(err)
			}
			switch {
			case word == "requires" && curF != nil:
				curF.Requires = append(curF.Requires, c)
			case word == "ensures" && curF != nil:
				curF.Ensures = append(curF.Ensures, c)
			case word == "invariant" && curL != nil:
				curL.Invariants = append(curL.Invariants, c)
			case word == "invariant" && curT != nil:
				curT.Invariant = append(curT.Invariant, c)
			default:
				return fail(fmt.Errorf("%s outside a matching block", word))
			}
		case "decreases":
			r, _ := splitProps(rest)
			var es []ast.Expr
			for _, part := range splitTop(r, ",") {
				e, err := parseSpecExpr(strings.TrimSpace(part))
				if err != nil {
					return fail(err)
				}
				es = append(es, e)
			}
			if curL != nil {
				curL.Decreases = es
			} else if curF != nil {
				curF.Decreases = es
			} else {
				return fail(fmt.Errorf("decreases outside block"))
			}
		case "pure":
			if curF != nil {
				curF.Pure = true
			}
		case "before", "after":
			if curF == nil {
				return fail(fmt.Errorf("%s outside func block", word))
			}
			// before|after <callee>#k set $a = e1; $b = e2
			i := strings.Index(rest, " set ")
			if i < 0 {
				return fail(fmt.Errorf("%s <callee>#k set $x = e; ...", word))
			}
			target := strings.TrimSpace(rest[:i])
			j := strings.LastIndex(target, "#")
			if j < 0 {
				return fail(fmt.Errorf("call ordinal missing"))
			}
			k := 0 // '#*': every call
			if target[j+1:] != "*" {
				var err error
				k, err = strconv.Atoi(target[j+1:])
				if err != nil {
					return fail(err)
				}
			}
			gs := &GhostSet{When: word, Callee: target[:j], Ord: k}
			for _, as := range splitTop(rest[i+5:], ";") {
				as = strings.TrimSpace(as)
				if as == "" {
					continue
				}
				eq := indexTop(as, "=")
				if eq < 0 || !(strings.HasPrefix(as, "$") || strings.Contains(as[:eq], ".$")) {
					return fail(fmt.Errorf("ghost assignment %q", as))
				}
				e, err := parseSpecExpr(strings.TrimSpace(as[eq+1:]))
				if err != nil {
					return fail(err)
				}
				if strings.HasPrefix(as, "$") {
					gs.Names = append(gs.Names, strings.TrimSpace(as[1:eq]))
					gs.Targets = append(gs.Targets, nil)
				} else {
					// x.$g = e: a scalar ghost field of an object
					te, err := parseSpecExpr(strings.TrimSpace(as[:eq]))
					if err != nil {
						return fail(err)
					}
					gs.Names = append(gs.Names, strings.TrimSpace(as[:eq]))
					gs.Targets = append(gs.Targets, te)
				}
				gs.Exprs = append(gs.Exprs, e)
			}
			curF.GhostSets = append(curF.GhostSets, gs)
		case "let":
			if curF == nil {
				return fail(fmt.Errorf("let outside func block"))
			}
			eq := indexTop(rest, "=")
			if eq < 0 {
				return fail(fmt.Errorf("let name = expr"))
			}
			e, err := parseSpecExpr(strings.TrimSpace(rest[eq+1:]))
			if err != nil {
				return fail(err)
			}
			if curF.Lets == nil {
				curF.Lets = map[string]ast.Expr{}
			}
			curF.Lets[strings.TrimSpace(rest[:eq])] = e
		case "preserves-type":
			if curF != nil {
				curF.PreservesTypes = append(curF.PreservesTypes, strings.Fields(strings.ReplaceAll(rest, ",", " "))...)
			}
		case "preserves-held":
			if curF != nil {
				curF.PreservesHeld = true
			}
		case "local":
			// local $name <type> = <init>
			if curF == nil {
				return fail(fmt.Errorf("local outside func block"))
			}
			eq := indexTop(rest, "=")
			if eq < 0 {
				return fail(fmt.Errorf("local $name <type> = <init>"))
			}
			fs := strings.Fields(rest[:eq])
			if len(fs) != 2 || !strings.HasPrefix(fs[0], "$") {
				return fail(fmt.Errorf("local $name <type> = <init>"))
			}
			e, err := parseSpecExpr(strings.TrimSpace(rest[eq+1:]))
			if err != nil {
				return fail(err)
			}
			name := strings.TrimPrefix(fs[0], "$")
			sp.GhostVars[name] = fs[1]
			sp.GhostPkg[name] = filepath.Base(filepath.Dir(path))
			sp.GhostLocal[name] = true
			curF.Locals = append(curF.Locals, GhostLocal{name, e})
		case "init-set":
			if curF == nil {
				return fail(fmt.Errorf("init-set outside func block"))
			}
			gs := &GhostSet{When: "init"}
			for _, as := range splitTop(rest, ";") {
				as = strings.TrimSpace(as)
				if as == "" {
					continue
				}
				eq := indexTop(as, "=")
				if eq < 0 {
					return fail(fmt.Errorf("ghost assignment %q", as))
				}
				e, err := parseSpecExpr(strings.TrimSpace(as[eq+1:]))
				if err != nil {
					return fail(err)
				}
				if strings.HasPrefix(as, "$") {
					gs.Names = append(gs.Names, strings.TrimSpace(as[1:eq]))
					gs.Targets = append(gs.Targets, nil)
				} else {
					te, err := parseSpecExpr(strings.TrimSpace(as[:eq]))
					if err != nil {
						return fail(err)
					}
					gs.Names = append(gs.Names, strings.TrimSpace(as[:eq]))
					gs.Targets = append(gs.Targets, te)
				}
				gs.Exprs = append(gs.Exprs, e)
			}
			curF.InitSets = append(curF.InitSets, gs)
		case "entry-set":
			if curF == nil {
				return fail(fmt.Errorf("entry-set outside func block"))
			}
			gs := &GhostSet{When: "entry"}
			for _, as := range splitTop(rest, ";") {
				as = strings.TrimSpace(as)
				if as == "" {
					continue
				}
				eq := indexTop(as, "=")
				if eq < 0 || !strings.HasPrefix(as, "$") {
					return fail(fmt.Errorf("ghost assignment %q", as))
				}
				name := strings.TrimSpace(as[1:eq])
				rhs := strings.TrimSpace(as[eq+1:])
				e, err := parseSpecExpr(rhs)
				if err != nil {
					return fail(err)
				}
				gs.Names = append(gs.Names, name)
				gs.Exprs = append(gs.Exprs, e)
				mc, err := mkClause("$" + name)
				if err != nil {
					return fail(err)
				}
				curF.ModNone = false
				curF.Modifies = append(curF.Modifies, mc)
				ec, err := mkClause("$" + name + " == old(" + rhs + ")")
				if err != nil {
					return fail(err)
				}
				ec.Label = "entry-set:" + name
				curF.Ensures = append(curF.Ensures, ec)
			}
			curF.EntrySets = append(curF.EntrySets, gs)
		case "event":
			if curF == nil {
				return fail(fmt.Errorf("event outside func block"))
			}
			r, props := splitProps(rest)
			c, err := mkClause(r)
			if err != nil {
				return fail(err)
			}
			c.Props = props
			curF.Events = append(curF.Events, c)
			// sugar: modifies x; ensures x == old(x) + 1
			curF.ModNone = false
			curF.Modifies = append(curF.Modifies, c)
			ec, err := mkClause(r + " == old(" + r + ") + 1")
			if err != nil {
				return fail(err)
			}
			ec.Props = props
			ec.Label = "event:" + r
			curF.Ensures = append(curF.Ensures, ec)
		case "reads":
			// reads p, q.f: the body must (syntactically) use these parameters / receiver fields. For trusted
			// functions whose contract says "the result is a function of ...": dropping a dependency is noticed.
			if curF == nil {
				return fail(fmt.Errorf("reads outside func block"))
			}
			for _, it := range strings.Split(rest, ",") {
				if it = strings.TrimSpace(it); it != "" {
					curF.Reads = append(curF.Reads, it)
				}
			}
		case "escapes":
			if curF == nil {
				return fail(fmt.Errorf("escapes outside func block"))
			}
			curF.Escapes = append(curF.Escapes, strings.Fields(strings.ReplaceAll(rest, ",", " "))...)
		case "owned-map":
			sp.OwnedMaps["map:"+strings.TrimSpace(rest)] = true
		case "immutable-elems":
			r2, props := splitProps(rest)
			sp.ImmutableElems[strings.TrimSpace(r2)] = props
		case "captures":
			if curF == nil {
				return fail(fmt.Errorf("captures outside func block"))
			}
			c, err := mkClause(rest)
			if err != nil {
				return fail(err)
			}
			curF.Captures = append(curF.Captures, c)
		case "implementers":
			if curF == nil || !curF.Iface {
				return fail(fmt.Errorf("implementers outside iface block"))
			}
			for _, t := range strings.Split(rest, ",") {
				if t = strings.TrimSpace(t); t != "" {
					curF.Implementers = append(curF.Implementers, t)
				}
			}
		case "macro", "specfn", "opaque":
			eq := indexTop(rest, "=")
			lp := strings.Index(rest, "(")
			rp := strings.Index(rest, ")")
			if eq < 0 || lp < 0 || rp < lp || rp > eq {
				return fail(fmt.Errorf("macro name(params) = expr"))
			}
			body, err := parseSpecExpr(strings.TrimSpace(rest[eq+1:]))
			if err != nil {
				return fail(err)
			}
			m := &Macro{Body: body}
			for _, prm := range strings.Split(rest[lp+1:rp], ",") {
				if prm = strings.TrimSpace(prm); prm != "" {
					m.Params = append(m.Params, prm)
				}
			}
			if word == "specfn" {
				sp.SpecFns[strings.TrimSpace(rest[:lp])] = m
			} else if word == "opaque" {
				sp.Opaques[strings.TrimSpace(rest[:lp])] = m
			} else {
				sp.Macros[strings.TrimSpace(rest[:lp])] = m
			}
		case "ghostvar":
			fs := strings.Fields(rest)
			if len(fs) != 2 {
				return fail(fmt.Errorf("ghostvar $name <type>"))
			}
			sp.GhostVars[strings.TrimPrefix(fs[0], "$")] = fs[1]
			sp.GhostPkg[strings.TrimPrefix(fs[0], "$")] = filepath.Base(filepath.Dir(path))
		case "known":
			if curF == nil {
				return fail(fmt.Errorf("known outside func block"))
			}
			c, err := mkClause(rest)
			if err != nil {
				return fail(err)
			}
			if c.Label == "" {
				return fail(fmt.Errorf("known needs <label>: <region>"))
			}
			if curF.Known == nil {
				curF.Known = map[string]Clause{}
			}
			curF.Known[c.Label] = c
		case "replay-post":
			if curF == nil {
				return fail(fmt.Errorf("replay-post outside func block"))
			}
			e, err := parseSpecExpr(rest)
			if err != nil {
				return fail(err)
			}
			curF.ReplayPost = e
		case "replay":
			if curF == nil {
				return fail(fmt.Errorf("replay outside func block"))
			}
			e, err := parseSpecExpr(rest)
			if err != nil {
				return fail(err)
			}
			curF.Replay = e
			curF.ReplayText = rest
		case "inline":
			if curF != nil {
				curF.Inline = true
				curF.Verify = false
			}
		case "lemma":
			// the contract is verified against the body, but callers keep seeing the body (inlined / evaluated as
			// a pure function): for facts about a helper that should hold without weakening what callers know
			if curF != nil {
				curF.Inline = true
			}
		case "trusted", "assume":
			if curF != nil {
				curF.Trusted = true
				curF.Verify = false
				sp.Assumes = append(sp.Assumes, curF.Name)
			}
		case "nilstrict":
			if curF != nil {
				curF.NilStrict = true
			}
		case "acquires":
			if curF != nil {
				curF.Acquires = append(curF.Acquires, strings.Fields(strings.ReplaceAll(rest, ",", " "))...)
			}
		case "chan":
			if curT == nil {
				return fail(fmt.Errorf("chan outside type block"))
			}
			i := strings.Index(rest, ":")
			if i < 0 {
				return fail(fmt.Errorf("chan <field>: <predicate over v>"))
			}
			c, err := mkClause(strings.TrimSpace(rest[i+1:]))
			if err != nil {
				return fail(err)
			}
			if curT.ChanInv == nil {
				curT.ChanInv = map[string]Clause{}
			}
			fld := strings.TrimSpace(rest[:i])
			// "chan f open: p" - the channel held by f is never closed: a receive always yields a sent value
			if fs := strings.Fields(fld); len(fs) == 2 && fs[1] == "open" {
				fld = fs[0]
				if curT.ChanOpen == nil {
					curT.ChanOpen = map[string]bool{}
				}
				curT.ChanOpen[fld] = true
			}
			curT.ChanInv[fld] = c
		case "syncmap":
			// syncmap <field>: <predicate over k, v> - every entry stored in the sync.Map held by that field
			// satisfies it (obligation at Store/LoadOrStore, assumption at Load/LoadOrStore/LoadAndDelete)
			if curT == nil {
				return fail(fmt.Errorf("syncmap outside type block"))
			}
			i := strings.Index(rest, ":")
			if i < 0 {
				return fail(fmt.Errorf("syncmap <field>: <predicate over k, v>"))
			}
			c, err := mkClause(strings.TrimSpace(rest[i+1:]))
			if err != nil {
				return fail(err)
			}
			if curT.SyncMapInv == nil {
				curT.SyncMapInv = map[string]Clause{}
			}
			curT.SyncMapInv[strings.TrimSpace(rest[:i])] = c
		case "syncview":
			if curT == nil {
				return fail(fmt.Errorf("syncview outside type block"))
			}
			m := syncViewRe.FindStringSubmatch(rest)
			if m == nil {
				return fail(fmt.Errorf("syncview <field>(<key type>): $has, $tag, $val [free <chan field>]"))
			}
			if curT.SyncView == nil {
				curT.SyncView = map[string]*SyncView{}
			}
			curT.SyncView[m[1]] = &SyncView{Field: m[1], Key: m[2], Has: m[3], Tag: m[4], Val: m[5], Free: m[6]}
		case "assume-invariant":
			if curT == nil {
				return fail(fmt.Errorf("assume-invariant outside type block"))
			}
			c, err := mkClause(rest)
			if err != nil {
				return fail(err)
			}
			curT.AssumedInv = append(curT.AssumedInv, c)
			sp.Assumes = append(sp.Assumes, "type "+curT.Name+": "+c.Text)
		case "guarded_by":
			if curT == nil {
				return fail(fmt.Errorf("guarded_by outside type block"))
			}
			i := strings.Index(rest, ":")
			if i < 0 {
				return fail(fmt.Errorf("guarded_by <mu>: f1, f2"))
			}
			mu := strings.TrimSpace(rest[:i])
			for _, f := range strings.Split(rest[i+1:], ",") {
				curT.Guarded[strings.TrimSpace(f)] = mu
			}
		case "strict:", "strict":
			// fields framed strictly: they change only where a contract's modifies clause names them,
			// also under 'modifies *' (like ghost state and owned maps)
			if curT == nil {
				return fail(fmt.Errorf("strict outside type block"))
			}
			for _, f := range strings.Split(strings.TrimPrefix(rest, ":"), ",") {
				if f = strings.TrimSpace(f); f != "" {
					sp.StrictFields[curT.Name+"."+f] = true
				}
			}
		case "immutable:", "immutable":
			if curT == nil {
				return fail(fmt.Errorf("immutable outside type block"))
			}
			for _, f := range strings.Split(strings.TrimPrefix(rest, ":"), ",") {
				if f = strings.TrimSpace(f); f != "" {
					curT.Immutable[f] = true
				}
			}
		case "ghost":
			if curT == nil {
				return fail(fmt.Errorf("ghost outside type block"))
			}
			for _, d := range strings.Split(rest, ",") {
				fs := strings.Fields(d)
				if len(fs) == 2 {
					curT.Ghost[strings.TrimPrefix(fs[0], "$")] = fs[1]
				}
			}
		default:
			return fail(fmt.Errorf("unknown directive %q", word))
		}
	}
	return sc.Err()
}
