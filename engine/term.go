package main

import (
	"fmt"
	"math/big"
	"sort"
	"strings"
)

// ---------- sorts ----------

type SortKind int

const (
	KInt SortKind = iota
	KBool
	KStr
	KArr
)

type Sort struct {
	Kind SortKind
	Idx  *Sort
	Elem *Sort
	str  string
}

var (
	SInt  = &Sort{Kind: KInt, str: "Int"}
	SBool = &Sort{Kind: KBool, str: "Bool"}
	SStr  = &Sort{Kind: KStr, str: "Str"}
)

var arrSorts = map[string]*Sort{}

func SArr(idx, elem *Sort) *Sort {
	k := "(Array " + idx.str + " " + elem.str + ")"
	if s, ok := arrSorts[k]; ok {
		return s
	}
	s := &Sort{Kind: KArr, Idx: idx, Elem: elem, str: k}
	arrSorts[k] = s
	return s
}

func (s *Sort) String() string { return s.str }

// ---------- terms ----------

type Term struct {
	Op   string // "int", "true", "false", "var", "uf", or an SMT operator
	Name string // var / uf name
	Args []*Term
	Sort *Sort
	Int  *big.Int
	key  string
}

// TermPool hash-conses terms and records declarations.
type TermPool struct {
	terms map[string]*Term
	Vars  map[string]*Sort   // declared constants
	UFs   map[string][]*Sort // declared functions: arg sorts..., result sort last
	fresh map[string]int
}

func NewTermPool() *TermPool {
	return &TermPool{terms: map[string]*Term{}, Vars: map[string]*Sort{}, UFs: map[string][]*Sort{}, fresh: map[string]int{}}
}

var TP = NewTermPool()

func (p *TermPool) mk(op, name string, sort *Sort, iv *big.Int, args ...*Term) *Term {
	var sb strings.Builder
	sb.WriteString(op)
	sb.WriteByte('|')
	sb.WriteString(name)
	if iv != nil {
		sb.WriteByte('|')
		sb.WriteString(iv.String())
	}
	for _, a := range args {
		sb.WriteByte(',')
		sb.WriteString(fmt.Sprintf("%p", a))
	}
	k := sb.String()
	if t, ok := p.terms[k]; ok {
		return t
	}
	t := &Term{Op: op, Name: name, Args: args, Sort: sort, Int: iv, key: k}
	p.terms[k] = t
	return t
}

func smtName(s string) string {
	ok := len(s) > 0 && !(s[0] >= '0' && s[0] <= '9') && s[0] != '@' && s[0] != '.'
	for _, c := range s {
		if !(c >= 'a' && c <= 'z' || c >= 'A' && c <= 'Z' || c >= '0' && c <= '9' || c == '_' || c == '.' || c == '$' || c == '!' || c == '@' || c == '-') {
			ok = false
			break
		}
	}
	if ok {
		return s
	}
	return "|" + strings.ReplaceAll(strings.ReplaceAll(s, "|", "!"), "\\", "!") + "|"
}

func Var(name string, s *Sort) *Term {
	if old, ok := TP.Vars[name]; ok && old != s {
		panic("sort clash for var " + name + ": " + old.str + " vs " + s.str)
	}
	TP.Vars[name] = s
	return TP.mk("var", name, s, nil)
}

func Fresh(prefix string, s *Sort) *Term {
	TP.fresh[prefix]++
	return Var(fmt.Sprintf("%s!%d", prefix, TP.fresh[prefix]), s)
}

func UF(name string, res *Sort, args ...*Term) *Term {
	sig := make([]*Sort, 0, len(args)+1)
	for _, a := range args {
		sig = append(sig, a.Sort)
	}
	sig = append(sig, res)
	if old, ok := TP.UFs[name]; ok {
		if len(old) != len(sig) {
			panic(toolErr("a specification function is applied to arguments of different shapes (arity clash for " + name + ")"))
		}
		for i := range old {
			if old[i] != sig[i] {
				panic(toolErr(fmt.Sprintf("a specification function is applied to arguments of different sorts (%s arg %d: %s vs %s)", name, i, old[i], sig[i])))
			}
		}
	} else {
		TP.UFs[name] = sig
	}
	return TP.mk("uf", name, res, nil, args...)
}

func IntLit(v int64) *Term     { return TP.mk("int", "", SInt, big.NewInt(v)) }
func BigLit(v *big.Int) *Term  { return TP.mk("int", "", SInt, new(big.Int).Set(v)) }
func BoolLit(b bool) *Term {
	if b {
		return TP.mk("true", "", SBool, nil)
	}
	return TP.mk("false", "", SBool, nil)
}

var (
	True  = BoolLit(true)
	False = BoolLit(false)
	Zero  = IntLit(0)
	One   = IntLit(1)
)

func (t *Term) IsInt() bool   { return t.Op == "int" }
func (t *Term) IsTrue() bool  { return t.Op == "true" }
func (t *Term) IsFalse() bool { return t.Op == "false" }
func (t *Term) IsConst() bool { return t.Op == "int" || t.Op == "true" || t.Op == "false" }

func Not(a *Term) *Term {
	switch {
	case a.IsTrue():
		return False
	case a.IsFalse():
		return True
	case a.Op == "not":
		return a.Args[0]
	}
	return TP.mk("not", "", SBool, nil, a)
}

func And(as ...*Term) *Term {
	var out []*Term
	seen := map[*Term]bool{}
	for _, a := range as {
		if a.IsFalse() {
			return False
		}
		if a.IsTrue() || seen[a] {
			continue
		}
		if a.Op == "and" {
			for _, b := range a.Args {
				if !seen[b] {
					seen[b] = true
					out = append(out, b)
				}
			}
			continue
		}
		seen[a] = true
		out = append(out, a)
	}
	for _, a := range out {
		if seen[Not(a)] && a.Op != "not" {
			return False
		}
	}
	switch len(out) {
	case 0:
		return True
	case 1:
		return out[0]
	}
	return TP.mk("and", "", SBool, nil, out...)
}

func Or(as ...*Term) *Term {
	var out []*Term
	seen := map[*Term]bool{}
	for _, a := range as {
		if a.IsTrue() {
			return True
		}
		if a.IsFalse() || seen[a] {
			continue
		}
		if a.Op == "or" {
			for _, b := range a.Args {
				if !seen[b] {
					seen[b] = true
					out = append(out, b)
				}
			}
			continue
		}
		seen[a] = true
		out = append(out, a)
	}
	for _, a := range out {
		if seen[Not(a)] && a.Op != "not" {
			return True
		}
	}
	switch len(out) {
	case 0:
		return False
	case 1:
		return out[0]
	}
	return TP.mk("or", "", SBool, nil, out...)
}

func Implies(a, b *Term) *Term {
	if a.IsTrue() {
		return b
	}
	if a.IsFalse() || b.IsTrue() {
		return True
	}
	if b.IsFalse() {
		return Not(a)
	}
	return TP.mk("=>", "", SBool, nil, a, b)
}

func Ite(c, a, b *Term) *Term {
	if c.IsTrue() {
		return a
	}
	if c.IsFalse() {
		return b
	}
	if a == b {
		return a
	}
	if a.Sort == SBool {
		if a.IsTrue() && b.IsFalse() {
			return c
		}
		if a.IsFalse() && b.IsTrue() {
			return Not(c)
		}
		if a.IsTrue() {
			return Or(c, b)
		}
		if a.IsFalse() {
			return And(Not(c), b)
		}
		if b.IsTrue() {
			return Or(Not(c), a)
		}
		if b.IsFalse() {
			return And(c, a)
		}
	}
	return TP.mk("ite", "", a.Sort, nil, c, a, b)
}

func Eq(a, b *Term) *Term {
	if a == b {
		return True
	}
	if a.Sort != b.Sort {
		panic(fmt.Sprintf("Eq sort mismatch: %s : %s vs %s : %s", a, a.Sort, b, b.Sort))
	}
	if a.IsInt() && b.IsInt() {
		return BoolLit(a.Int.Cmp(b.Int) == 0)
	}
	if a.Sort == SBool {
		if a.IsConst() && b.IsConst() {
			return BoolLit(a.IsTrue() == b.IsTrue())
		}
		if a.IsTrue() {
			return b
		}
		if b.IsTrue() {
			return a
		}
		if a.IsFalse() {
			return Not(b)
		}
		if b.IsFalse() {
			return Not(a)
		}
	}
	// string literals are pairwise distinct
	if a.Op == "var" && b.Op == "var" && strings.HasPrefix(a.Name, "strlit!") && strings.HasPrefix(b.Name, "strlit!") {
		return False
	}
	// ite with constant arms: (ite c k1 k2) == k
	if a.Op == "ite" && b.IsConst() && a.Args[1].IsConst() && a.Args[2].IsConst() {
		return Ite(a.Args[0], Eq(a.Args[1], b), Eq(a.Args[2], b))
	}
	if b.Op == "ite" && a.IsConst() && b.Args[1].IsConst() && b.Args[2].IsConst() {
		return Ite(b.Args[0], Eq(b.Args[1], a), Eq(b.Args[2], a))
	}
	if a.key > b.key {
		a, b = b, a
	}
	return TP.mk("=", "", SBool, nil, a, b)
}

func Neq(a, b *Term) *Term { return Not(Eq(a, b)) }

func cmp(op string, a, b *Term) *Term {
	if a.IsInt() && b.IsInt() {
		c := a.Int.Cmp(b.Int)
		switch op {
		case "<":
			return BoolLit(c < 0)
		case "<=":
			return BoolLit(c <= 0)
		case ">":
			return BoolLit(c > 0)
		case ">=":
			return BoolLit(c >= 0)
		}
	}
	if a == b {
		return BoolLit(op == "<=" || op == ">=")
	}
	return TP.mk(op, "", SBool, nil, a, b)
}

func Lt(a, b *Term) *Term { return cmp("<", a, b) }
func Le(a, b *Term) *Term { return cmp("<=", a, b) }
func Gt(a, b *Term) *Term { return cmp("<", b, a) }
func Ge(a, b *Term) *Term { return cmp("<=", b, a) }

func Add(a, b *Term) *Term {
	if a.IsInt() && b.IsInt() {
		return BigLit(new(big.Int).Add(a.Int, b.Int))
	}
	if a.IsInt() && a.Int.Sign() == 0 {
		return b
	}
	if b.IsInt() && b.Int.Sign() == 0 {
		return a
	}
	// (x + k1) + k2
	if b.IsInt() && a.Op == "+" && len(a.Args) == 2 && a.Args[1].IsInt() {
		return Add(a.Args[0], BigLit(new(big.Int).Add(a.Args[1].Int, b.Int)))
	}
	if a.IsInt() && !b.IsInt() {
		a, b = b, a
	}
	// x + (j - x) = j
	if b.Op == "-" && len(b.Args) == 2 && b.Args[1] == a {
		return b.Args[0]
	}
	if a.Op == "-" && len(a.Args) == 2 && a.Args[1] == b {
		return a.Args[0]
	}
	return TP.mk("+", "", SInt, nil, a, b)
}

func Sub(a, b *Term) *Term {
	if a.IsInt() && b.IsInt() {
		return BigLit(new(big.Int).Sub(a.Int, b.Int))
	}
	if b.IsInt() {
		return Add(a, BigLit(new(big.Int).Neg(b.Int)))
	}
	if a == b {
		return Zero
	}
	return TP.mk("-", "", SInt, nil, a, b)
}

func Neg(a *Term) *Term { return Sub(Zero, a) }

func Mul(a, b *Term) *Term {
	if a.IsInt() && b.IsInt() {
		return BigLit(new(big.Int).Mul(a.Int, b.Int))
	}
	if a.IsInt() && !b.IsInt() {
		a, b = b, a
	}
	if b.IsInt() {
		if b.Int.Sign() == 0 {
			return Zero
		}
		if b.Int.Cmp(big.NewInt(1)) == 0 {
			return a
		}
	}
	return TP.mk("*", "", SInt, nil, a, b)
}

// EDiv / EMod are SMT-LIB euclidean div/mod.
func EDiv(a, b *Term) *Term {
	if a.IsInt() && b.IsInt() && b.Int.Sign() != 0 {
		q, _ := new(big.Int).DivMod(a.Int, b.Int, new(big.Int))
		return BigLit(q)
	}
	return TP.mk("div", "", SInt, nil, a, b)
}

func EMod(a, b *Term) *Term {
	if a.IsInt() && b.IsInt() && b.Int.Sign() != 0 {
		_, m := new(big.Int).DivMod(a.Int, b.Int, new(big.Int))
		return BigLit(m)
	}
	return TP.mk("mod", "", SInt, nil, a, b)
}

func Select(arr, idx *Term) *Term {
	if arr.Sort.Kind != KArr {
		panic("select on non-array " + arr.String())
	}
	if arr.Sort.Idx != idx.Sort {
		panic(fmt.Sprintf("select index sort mismatch %s vs %s", arr.Sort, idx.Sort))
	}
	// read-over-write with syntactically decidable index comparison
	cur := arr
	for cur.Op == "store" {
		if cur.Args[1] == idx {
			return cur.Args[2]
		}
		if cur.Args[1].IsConst() && idx.IsConst() {
			cur = cur.Args[0] // distinct constants
			continue
		}
		if distinctOffsets(cur.Args[1], idx) {
			cur = cur.Args[0]
			continue
		}
		break
	}
	return TP.mk("select", "", arr.Sort.Elem, nil, cur, idx)
}

// distinctOffsets recognises x+k1 vs x+k2 (k1 != k2) and x vs x+k (k != 0).
func distinctOffsets(a, b *Term) bool {
	ba, ka := splitOffset(a)
	bb, kb := splitOffset(b)
	return ba == bb && ka.Cmp(kb) != 0
}

func splitOffset(a *Term) (*Term, *big.Int) {
	if a.Op == "+" && len(a.Args) == 2 && a.Args[1].IsInt() {
		return a.Args[0], a.Args[1].Int
	}
	if a.IsInt() {
		return nil, a.Int
	}
	return a, big.NewInt(0)
}

func Store(arr, idx, val *Term) *Term {
	if arr.Sort.Kind != KArr || arr.Sort.Idx != idx.Sort || arr.Sort.Elem != val.Sort {
		panic(fmt.Sprintf("store sort mismatch: %s [%s] := %s", arr.Sort, idx.Sort, val.Sort))
	}
	if arr.Op == "store" && arr.Args[1] == idx {
		arr = arr.Args[0]
	}
	return TP.mk("store", "", arr.Sort, nil, arr, idx, val)
}

// Forall builds a quantified formula over Int-sorted bound variables. A single bound variable k that
// is used to index arrays at (off + k) is replaced by the absolute index j = off + k: the array reads
// become select(a, j), a trigger that matches every ground read of that array however its index is
// written (arithmetic inside patterns is matched syntactically by the solvers and is fragile).
func Forall(vars []*Term, body *Term) *Term {
	if body.IsTrue() {
		return True
	}
	// each integer variable that is only ever used as "offset + variable" in array indices is replaced by the
	// absolute index, so that the instantiation patterns are plain select(a, j) terms
	nv := append([]*Term{}, vars...)
	for i, v := range nv {
		if v.Sort != SInt {
			continue
		}
		if off := indexOffsetOf(v, body); off != nil {
			j := Fresh(v.Name+"_a", SInt)
			body = Subst(body, map[*Term]*Term{v: Sub(j, off)})
			nv[i] = j
		}
	}
	return forallRaw(nv, body)
}

func forallRaw(vars []*Term, body *Term) *Term {
	if body.IsTrue() {
		return True
	}
	args := append(append([]*Term{}, vars...), body)
	return TP.mk("forall", "", SBool, nil, args...)
}

// indexOffsetOf: the most frequent term x such that the body reads arrays at index (x + k) (possibly plus
// a literal); nil when k is used as an index directly or never.
func indexOffsetOf(k *Term, body *Term) *Term {
	count := map[*Term]int{}
	direct := 0
	seen := map[*Term]bool{}
	var mentions func(t *Term) bool
	memoM := map[*Term]bool{}
	mentions = func(t *Term) bool {
		if t == k {
			return true
		}
		if v, ok := memoM[t]; ok {
			return v
		}
		r := false
		for _, a := range t.Args {
			if mentions(a) {
				r = true
				break
			}
		}
		memoM[t] = r
		return r
	}
	var walk func(t *Term)
	walk = func(t *Term) {
		if seen[t] {
			return
		}
		seen[t] = true
		if t.Op == "forall" || t.Op == "exists" {
			// inner quantifiers are handled when they were built
		}
		if t.Op == "select" && len(t.Args) == 2 {
			idx := t.Args[1]
			if idx.Op == "+" && len(idx.Args) == 2 && idx.Args[1].IsInt() {
				idx = idx.Args[0] // (x + k) + literal
			}
			if idx == k {
				direct++
			} else if idx.Op == "+" && len(idx.Args) == 2 {
				a, b := idx.Args[0], idx.Args[1]
				if b == k && !mentions(a) {
					count[a]++
				} else if a == k && !mentions(b) {
					count[b]++
				}
			}
		}
		for _, a := range t.Args {
			walk(a)
		}
	}
	walk(body)
	if direct > 0 {
		return nil
	}
	var best *Term
	for x, n := range count {
		if best == nil || n > count[best] || (n == count[best] && x.String() < best.String()) {
			best = x
		}
	}
	return best
}

// forallPats: explicit instantiation patterns of quantified formulas built by ForallPat.
var forallPats = map[*Term][][]*Term{}

// ForallPat is Forall with explicit (multi-)patterns; each pattern is an alternative trigger.
func ForallPat(vars []*Term, body *Term, pats ...[]*Term) *Term {
	t := forallRaw(vars, body)
	if t.Op == "forall" && len(pats) > 0 {
		forallPats[t] = pats
	}
	return t
}

func Exists(vars []*Term, body *Term) *Term {
	if body.IsFalse() {
		return False
	}
	args := append(append([]*Term{}, vars...), body)
	return TP.mk("exists", "", SBool, nil, args...)
}

// ---------- substitution ----------

func Subst(t *Term, m map[*Term]*Term) *Term {
	if len(m) == 0 {
		return t
	}
	memo := map[*Term]*Term{}
	var rec func(*Term) *Term
	rec = func(t *Term) *Term {
		if r, ok := m[t]; ok {
			return r
		}
		if len(t.Args) == 0 {
			return t
		}
		if r, ok := memo[t]; ok {
			return r
		}
		changed := false
		na := make([]*Term, len(t.Args))
		for i, a := range t.Args {
			na[i] = rec(a)
			if na[i] != a {
				changed = true
			}
		}
		r := t
		if changed {
			r = rebuild(t, na)
		}
		memo[t] = r
		return r
	}
	return rec(t)
}

func rebuild(t *Term, a []*Term) *Term {
	switch t.Op {
	case "not":
		return Not(a[0])
	case "and":
		return And(a...)
	case "or":
		return Or(a...)
	case "=>":
		return Implies(a[0], a[1])
	case "ite":
		return Ite(a[0], a[1], a[2])
	case "=":
		return Eq(a[0], a[1])
	case "<":
		return Lt(a[0], a[1])
	case "<=":
		return Le(a[0], a[1])
	case "+":
		return Add(a[0], a[1])
	case "-":
		return Sub(a[0], a[1])
	case "*":
		return Mul(a[0], a[1])
	case "div":
		return EDiv(a[0], a[1])
	case "mod":
		return EMod(a[0], a[1])
	case "select":
		return Select(a[0], a[1])
	case "store":
		return Store(a[0], a[1], a[2])
	case "uf":
		return UF(t.Name, t.Sort, a...)
	case "forall":
		return Forall(a[:len(a)-1], a[len(a)-1])
	case "exists":
		return Exists(a[:len(a)-1], a[len(a)-1])
	}
	return TP.mk(t.Op, t.Name, t.Sort, t.Int, a...)
}

// ---------- printing ----------

func (t *Term) String() string {
	var sb strings.Builder
	t.write(&sb, nil)
	return sb.String()
}

func (t *Term) write(sb *strings.Builder, names map[*Term]string) {
	if names != nil {
		if n, ok := names[t]; ok {
			sb.WriteString(n)
			return
		}
	}
	switch t.Op {
	case "int":
		if t.Int.Sign() < 0 {
			sb.WriteString("(- ")
			sb.WriteString(new(big.Int).Neg(t.Int).String())
			sb.WriteString(")")
		} else {
			sb.WriteString(t.Int.String())
		}
	case "true", "false":
		sb.WriteString(t.Op)
	case "var":
		sb.WriteString(smtName(t.Name))
	case "uf":
		if len(t.Args) == 0 {
			sb.WriteString(smtName(t.Name))
			return
		}
		sb.WriteString("(")
		sb.WriteString(smtName(t.Name))
		for _, a := range t.Args {
			sb.WriteString(" ")
			a.write(sb, names)
		}
		sb.WriteString(")")
	case "forall", "exists":
		sb.WriteString("(")
		sb.WriteString(t.Op)
		sb.WriteString(" (")
		for _, v := range t.Args[:len(t.Args)-1] {
			sb.WriteString("(")
			sb.WriteString(smtName(v.Name))
			sb.WriteString(" ")
			sb.WriteString(v.Sort.str)
			sb.WriteString(")")
		}
		sb.WriteString(") ")
		if pats := forallPats[t]; len(pats) > 0 && t.Op == "forall" {
			sb.WriteString("(! ")
			t.Args[len(t.Args)-1].write(sb, names)
			for _, pt := range pats {
				sb.WriteString(" :pattern (")
				for i, x := range pt {
					if i > 0 {
						sb.WriteString(" ")
					}
					x.write(sb, names)
				}
				sb.WriteString(")")
			}
			sb.WriteString(")")
		} else {
			t.Args[len(t.Args)-1].write(sb, names)
		}
		sb.WriteString(")")
	default:
		sb.WriteString("(")
		sb.WriteString(t.Op)
		for _, a := range t.Args {
			sb.WriteString(" ")
			a.write(sb, names)
		}
		sb.WriteString(")")
	}
}

// collect gathers the free constants and UFs of a set of terms (bound variables excluded).
func collectDecls(ts []*Term) (vars []string, ufs []string, hasQuant bool) {
	seen := map[*Term]bool{}
	vs := map[string]bool{}
	us := map[string]bool{}
	bound := map[string]int{}
	var rec func(*Term)
	rec = func(t *Term) {
		if t.Op == "forall" || t.Op == "exists" {
			hasQuant = true
			for _, v := range t.Args[:len(t.Args)-1] {
				bound[v.Name]++
			}
			// do not memoise across binder boundaries
			saved := seen
			seen = map[*Term]bool{}
			rec(t.Args[len(t.Args)-1])
			seen = saved
			for _, v := range t.Args[:len(t.Args)-1] {
				bound[v.Name]--
			}
			return
		}
		if seen[t] {
			return
		}
		seen[t] = true
		switch t.Op {
		case "var":
			if bound[t.Name] == 0 {
				vs[t.Name] = true
			}
		case "uf":
			us[t.Name] = true
		}
		for _, a := range t.Args {
			rec(a)
		}
	}
	for _, t := range ts {
		rec(t)
	}
	for v := range vs {
		vars = append(vars, v)
	}
	for u := range us {
		ufs = append(ufs, u)
	}
	sort.Strings(vars)
	sort.Strings(ufs)
	return
}

// termSize counts DAG nodes.
func termSize(ts []*Term) int {
	seen := map[*Term]bool{}
	var rec func(*Term)
	rec = func(t *Term) {
		if seen[t] {
			return
		}
		seen[t] = true
		for _, a := range t.Args {
			rec(a)
		}
	}
	for _, t := range ts {
		rec(t)
	}
	return len(seen)
}
