package main

// Rename tolerance. Contracts live in a separate file and name parameters and locals of the functions they
// annotate (loop invariants over an accumulator, ghost recorders reading a local). A renamed parameter or
// local is a harmless edit that would otherwise leave the contract pointing at nothing. At baseline time the
// parameters (by position) and the named locals (by a structural signature: type, the shapes of the values
// assigned to it, and its ordinal among locals with the same signature in source order) of every function
// under contract are recorded in baseline/locals.json. When a name the baseline knows has disappeared from a
// function, a parameter at the same position, or the one local with the recorded signature whose own name the
// baseline does not know, is made available under the old name as well. Nothing is assumed through this: an
// invariant evaluated over the "wrong" variable is still checked at entry and at the back edge.

import (
	"fmt"
	"go/types"
	"path/filepath"
	"sort"
	"strings"

	"golang.org/x/tools/go/ssa"
)

type FuncLocals struct {
	Params []string          `json:"params"`
	Locals map[string][]string `json:"locals"` // name -> signature#ordinal of each declaration, in source order
}

var baseLocals map[string]*FuncLocals
var baseLocalsLoaded bool

func loadBaseLocals() {
	if baseLocalsLoaded {
		return
	}
	baseLocalsLoaded = true
	_ = loadJSON(filepath.Join(verifDir, "baseline", "locals.json"), &baseLocals)
}

func valueShape(v ssa.Value, depth int) string {
	switch x := v.(type) {
	case *ssa.Call:
		if c := x.Call.StaticCallee(); c != nil {
			return "call:" + specName(c)
		}
		if x.Call.IsInvoke() {
			return "invoke:" + x.Call.Method.Name()
		}
		if b, ok := x.Call.Value.(*ssa.Builtin); ok {
			return "builtin:" + b.Name()
		}
		return "call"
	case *ssa.Const:
		return "const"
	case *ssa.Parameter:
		return "param"
	case *ssa.Extract:
		if depth > 2 {
			return "extract"
		}
		return fmt.Sprintf("extract%d:%s", x.Index, valueShape(x.Tuple, depth+1))
	case *ssa.BinOp:
		return "binop:" + x.Op.String()
	case *ssa.UnOp:
		return "unop:" + x.Op.String()
	case *ssa.TypeAssert:
		return "assert:" + typeName(x.AssertedType)
	}
	return strings.TrimPrefix(fmt.Sprintf("%T", v), "*ssa.")
}

// namedLocals: the named, non-ghost allocations of fn in source order.
func namedLocals(fn *ssa.Function) []*ssa.Alloc {
	var out []*ssa.Alloc
	for _, b := range fn.Blocks {
		for _, in := range b.Instrs {
			if a, ok := in.(*ssa.Alloc); ok && a.Comment != "" && isIdent(a.Comment) {
				out = append(out, a)
			}
		}
	}
	for _, a := range fn.Locals {
		if a.Comment != "" && isIdent(a.Comment) {
			dup := false
			for _, o := range out {
				if o == a {
					dup = true
				}
			}
			if !dup {
				out = append(out, a)
			}
		}
	}
	sort.SliceStable(out, func(i, j int) bool { return out[i].Pos() < out[j].Pos() })
	return out
}

func localSignature(a *ssa.Alloc) string {
	shapes := map[string]bool{}
	if refs := a.Referrers(); refs != nil {
		for _, r := range *refs {
			if s, ok := r.(*ssa.Store); ok && s.Addr == a {
				shapes[valueShape(s.Val, 0)] = true
			}
		}
	}
	var ss []string
	for s := range shapes {
		ss = append(ss, s)
	}
	sort.Strings(ss)
	t := a.Type()
	if p, ok := t.(*types.Pointer); ok {
		t = p.Elem()
	}
	return typeName(t) + "|" + strings.Join(ss, ",")
}

// localTable: name -> signature#ordinal of every declaration of that name (a type-switch variable is declared
// once per case), and the inverse for lookup.
func localTable(fn *ssa.Function) (byName map[string][]string, bySig map[string]*ssa.Alloc) {
	byName, bySig = map[string][]string{}, map[string]*ssa.Alloc{}
	count := map[string]int{}
	for _, a := range namedLocals(fn) {
		sig := localSignature(a)
		key := fmt.Sprintf("%s#%d", sig, count[sig])
		count[sig]++
		bySig[key] = a
		byName[a.Comment] = append(byName[a.Comment], key)
	}
	return
}

func funcLocalsOf(fn *ssa.Function) *FuncLocals {
	fl := &FuncLocals{Locals: map[string][]string{}}
	for _, p := range fn.Params {
		fl.Params = append(fl.Params, p.Name())
	}
	fl.Locals, _ = localTable(fn)
	return fl
}

// renamedParams: old name -> parameter now at that position (only for names that are gone).
func renamedParams(fn *ssa.Function) map[string]*ssa.Parameter {
	loadBaseLocals()
	bl := baseLocals[specName(fn)]
	if bl == nil || len(bl.Params) != len(fn.Params) {
		return nil
	}
	now := map[string]bool{}
	for _, p := range fn.Params {
		now[p.Name()] = true
	}
	for _, a := range namedLocals(fn) {
		now[a.Comment] = true
	}
	var out map[string]*ssa.Parameter
	for i, old := range bl.Params {
		if old != fn.Params[i].Name() && !now[old] && old != "" && old != "_" {
			if out == nil {
				out = map[string]*ssa.Parameter{}
			}
			out[old] = fn.Params[i]
		}
	}
	return out
}

var renamedLocalsMemo = map[*ssa.Function]map[string][]*ssa.Alloc{}

// renamedLocals: old name -> the allocation that now plays its part (only for names that are gone, and only
// when the match is unambiguous and the candidate's own name is new).
func renamedLocals(fn *ssa.Function) map[string][]*ssa.Alloc {
	if m, ok := renamedLocalsMemo[fn]; ok {
		return m
	}
	loadBaseLocals()
	var out map[string][]*ssa.Alloc
	if bl := baseLocals[specName(fn)]; bl != nil {
		byName, bySig := localTable(fn)
		now := map[string]bool{}
		for _, p := range fn.Params {
			now[p.Name()] = true
		}
		for n := range byName {
			now[n] = true
		}
		known := map[string]bool{}
		for n := range bl.Locals {
			known[n] = true
		}
		for _, n := range bl.Params {
			known[n] = true
		}
		for old, keys := range bl.Locals {
			if now[old] {
				continue
			}
			for _, key := range keys {
				if a := bySig[key]; a != nil && !known[a.Comment] {
					if out == nil {
						out = map[string][]*ssa.Alloc{}
					}
					out[old] = append(out[old], a)
				}
			}
			sort.SliceStable(out[old], func(i, j int) bool { return out[old][i].Pos() < out[old][j].Pos() })
		}
	}
	renamedLocalsMemo[fn] = out
	return out
}
