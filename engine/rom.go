package main

import (
	"path/filepath"
	"strings"
	"sort"
	"go/token"
	"go/types"

	"golang.org/x/tools/go/ssa"
)

// Read-only tables: package-level slices initialised from a composite literal of constants and
// never assigned or element-written anywhere else in the repository (checked syntactically).
// They are treated like literals. Assumption recorded in the evidence: no aliasing write through
// a copy of the slice header.

type romTable struct {
	Scalar Value // non-nil: the global itself is this constant value
	ID    int64
	Elems []Value
	ElemT types.Type
	Name  string
}

var romByGlobal = map[string]*romTable{} // "G:pkg.name"
var romByID = map[int64]*romTable{}

func scanROM(p *Program, ex *Exec) {
	mutated := map[*ssa.Global]bool{}
	var inits []*ssa.Function
	for _, sp := range p.SSAPkgs {
		for _, m := range sp.Members {
			fn, ok := m.(*ssa.Function)
			if !ok {
				continue
			}
			if fn.Name() == "init" {
				inits = append(inits, fn)
				continue
			}
			markMutations(fn, mutated)
		}
		for _, m := range sp.Members {
			if t, ok := m.(*ssa.Type); ok {
				for _, ptr := range []bool{false, true} {
					var tt types.Type = t.Type()
					if ptr {
						tt = types.NewPointer(tt)
					}
					ms := p.SSA.MethodSets.MethodSet(tt)
					for i := 0; i < ms.Len(); i++ {
						if f := p.SSA.MethodValue(ms.At(i)); f != nil {
							markMutations(f, mutated)
						}
					}
				}
			}
		}
	}
	next := int64(-1000)
	for _, fn := range inits {
		arrays := map[*ssa.Alloc]map[int64]*ssa.Const{}
		for _, b := range fn.Blocks {
			for _, in := range b.Instrs {
				st, ok := in.(*ssa.Store)
				if !ok {
					continue
				}
				if ia, ok := st.Addr.(*ssa.IndexAddr); ok {
					al, ok1 := ia.X.(*ssa.Alloc)
					ci, ok2 := ia.Index.(*ssa.Const)
					cv, ok3 := st.Val.(*ssa.Const)
					if ok1 && ok2 && ok3 {
						if arrays[al] == nil {
							arrays[al] = map[int64]*ssa.Const{}
						}
						arrays[al][ci.Int64()] = cv
					} else if ok1 {
						arrays[al] = nil
						delete(arrays, al)
					}
					continue
				}
				g, ok := st.Addr.(*ssa.Global)
				if !ok || mutated[g] {
					continue
				}
				// sentinel errors: var X = errors.New("...") never reassigned
				if call, ok := st.Val.(*ssa.Call); ok {
					if callee := call.Call.StaticCallee(); callee != nil && callee.String() == "errors.New" {
						next--
						rt := &romTable{ID: next, Name: "G:" + shortPkg(g.Pkg.Pkg) + "." + g.Name(), Scalar: IfaceV{IntLit(errTag(ex)), IntLit(next)}}
						romByGlobal[rt.Name] = rt
					}
					continue
				}
				sl, ok := st.Val.(*ssa.Slice)
				if !ok || sl.Low != nil || sl.High != nil {
					continue
				}
				al, ok := sl.X.(*ssa.Alloc)
				if !ok {
					continue
				}
				at, ok := under(al.Type().(*types.Pointer).Elem()).(*types.Array)
				if !ok {
					continue
				}
				consts := arrays[al]
				if int64(len(consts)) != at.Len() {
					continue
				}
				next--
				rt := &romTable{ID: next, ElemT: at.Elem(), Name: "G:" + shortPkg(g.Pkg.Pkg) + "." + g.Name()}
				okAll := true
				for i := int64(0); i < at.Len(); i++ {
					c, ok := consts[i]
					if !ok {
						okAll = false
						break
					}
					rt.Elems = append(rt.Elems, ex.constVal(c))
				}
				if okAll {
					romByGlobal[rt.Name] = rt
					romByID[rt.ID] = rt
				}
			}
		}
	}
}

func markMutations(fn *ssa.Function, mutated map[*ssa.Global]bool) {
	var visit func(f *ssa.Function)
	visit = func(f *ssa.Function) {
		for _, b := range f.Blocks {
			for _, in := range b.Instrs {
				st, ok := in.(*ssa.Store)
				if !ok {
					continue
				}
				switch a := st.Addr.(type) {
				case *ssa.Global:
					mutated[a] = true
				case *ssa.IndexAddr:
					if u, ok := a.X.(*ssa.UnOp); ok && u.Op == token.MUL {
						if g, ok := u.X.(*ssa.Global); ok {
							mutated[g] = true
						}
					}
				}
			}
		}
		for _, an := range f.AnonFuncs {
			visit(an)
		}
	}
	visit(fn)
}

// romLoad serves loads from read-only tables. ok=false when p is not a ROM location.
func romLoad(st *State, p *PtrV) (Value, bool) {
	switch p.Root {
	case RObj:
		if len(p.Path) == 0 {
			if rt, ok := romByGlobal[p.Class]; ok {
				if rt.Scalar != nil {
					return rt.Scalar, true
				}
				n := IntLit(int64(len(rt.Elems)))
				return SliceV{IntLit(rt.ID), Zero, n, n}, true
			}
		}
	case RElem:
		if p.Arr.IsInt() {
			if rt, ok := romByID[p.Arr.Int.Int64()]; ok {
				if p.Idx.IsInt() && p.Idx.Int.IsInt64() {
					i := p.Idx.Int.Int64()
					if i >= 0 && i < int64(len(rt.Elems)) {
						return rt.Elems[i], true
					}
				}
				// symbolic index: ite chain over the table
				acc := flatten(rt.Elems[len(rt.Elems)-1])
				for i := len(rt.Elems) - 2; i >= 0; i-- {
					fl := flatten(rt.Elems[i])
					for j := range acc {
						acc[j] = Ite(Eq(p.Idx, IntLit(int64(i))), fl[j], acc[j])
					}
				}
				v, _ := unflatten(rt.ElemT, acc)
				return v, true
			}
		}
	}
	return nil, false
}


// immutableWriters lists the repository functions that store to a field declared `immutable` or into
// an element class declared `immutable-elems`, and whether their body is verified (own contract, or
// inlined into a verified caller is NOT counted). The write-once discipline is an obligation only in
// verified functions; writers outside are an assumption and are listed in the evidence.
func immutableWriters(p *Program, specs *Specs) (unverified []string) {
	seen := map[string]bool{}
	var visit func(f *ssa.Function)
	visit = func(f *ssa.Function) {
		if pos := p.SSA.Fset.Position(f.Pos()); strings.HasPrefix(filepath.Base(pos.Filename), "zz_verif") {
			return // specification functions and replay builders of the verif build
		}
		for _, b := range f.Blocks {
			for _, in := range b.Instrs {
				what := ""
				switch x := in.(type) {
				case *ssa.Store:
					switch a := x.Addr.(type) {
					case *ssa.FieldAddr:
						if pt, ok := under(a.X.Type()).(*types.Pointer); ok {
							if st, ok := under(pt.Elem()).(*types.Struct); ok {
								tn := typeName(pt.Elem())
								if ts := specs.Types[tn]; (ts != nil && ts.Immutable[st.Field(a.Field).Name()]) || specs.StrictFields[tn+"."+st.Field(a.Field).Name()] {
									// initialisation of an object allocated in the same function is the constructor pattern
									if _, isAlloc := a.X.(*ssa.Alloc); !isAlloc {
										what = tn + "." + st.Field(a.Field).Name()
									}
								}
							}
						}
					case *ssa.IndexAddr:
						if sl, ok := under(a.X.Type()).(*types.Slice); ok {
							if _, ok := specs.ImmutableElems["[]"+typeName(sl.Elem())]; ok {
								what = "elements of []" + typeName(sl.Elem())
							}
						}
					}
				case *ssa.Call:
					if bi, ok := x.Call.Value.(*ssa.Builtin); ok && bi.Name() == "close" {
						what = "a channel (close)"
						direct := false
						if ld, ok := x.Call.Args[0].(*ssa.UnOp); ok {
							switch a := ld.X.(type) {
							case *ssa.FieldAddr:
								direct = true
								if pt, ok := under(a.X.Type()).(*types.Pointer); ok {
									if st, ok := under(pt.Elem()).(*types.Struct); ok {
										if ts := specs.Types[typeName(pt.Elem())]; ts != nil && ts.ChanOpen[st.Field(a.Field).Name()] {
											k := specName(f) + " closes " + typeName(pt.Elem()) + "." + st.Field(a.Field).Name() + ", which is declared never closed"
											if !seen[k] {
												seen[k] = true
												unverified = append(unverified, k)
											}
										}
									}
								}
							case *ssa.Alloc, *ssa.FreeVar:
								direct = true // a local (or captured local) channel variable
							}
						}
						if _, ok := x.Call.Args[0].(*ssa.MakeChan); ok {
							direct = true
						}
						if !direct {
							k := specName(f) + " closes a channel it does not name directly (channels declared 'open' are assumed not to be closed through aliases)"
							if !seen[k] {
								seen[k] = true
								unverified = append(unverified, k)
							}
						}
					}
					if bi, ok := x.Call.Value.(*ssa.Builtin); ok && bi.Name() == "append" && len(x.Call.Args) > 0 {
						if sl, ok := under(x.Call.Args[0].Type()).(*types.Slice); ok {
							if _, ok := specs.ImmutableElems["[]"+typeName(sl.Elem())]; ok {
								what = "elements of []" + typeName(sl.Elem()) + " (append)"
							}
						}
					}
				}
				if what == "" {
					continue
				}
				name := specName(f)
				sp := specs.Funcs[name]
				if sp != nil && sp.Verify {
					continue
				}
				key := name + " writes " + what
				if strings.HasSuffix(what, "(close)") {
					key = name + " closes a channel outside any contract (closedness of channels is assumed to change only in functions under contract)"
				}
				if !seen[key] {
					seen[key] = true
					unverified = append(unverified, key)
				}
			}
		}
		for _, an := range f.AnonFuncs {
			visit(an)
		}
	}
	for _, sp := range p.SSAPkgs {
		for _, m := range sp.Members {
			switch x := m.(type) {
			case *ssa.Function:
				visit(x)
			case *ssa.Type:
				for _, ptr := range []bool{false, true} {
					var tt types.Type = x.Type()
					if ptr {
						tt = types.NewPointer(tt)
					}
					ms := p.SSA.MethodSets.MethodSet(tt)
					for i := 0; i < ms.Len(); i++ {
						if f := p.SSA.MethodValue(ms.At(i)); f != nil && f.Synthetic == "" {
							visit(f)
						}
					}
				}
			}
		}
	}
	sort.Strings(unverified)
	return unverified
}
