package main

import (
	"fmt"
	"os"
)

func cmdDump(args []string) {
	p, err := LoadProgram("verif")
	if err != nil {
		fmt.Fprintln(os.Stderr, err)
		os.Exit(2)
	}
	defer p.Cleanup()
	for _, a := range args {
		fn := p.FindFunc(a)
		if fn == nil {
			fmt.Println("not found:", a)
			continue
		}
		fn.WriteTo(os.Stdout)
	}
}
