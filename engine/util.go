package main

import (
	"go/types"
	"math/big"
)

type typesFunc = types.Func
type mathBig = big.Int

func typesPointer(t types.Type) types.Type { return types.NewPointer(t) }
