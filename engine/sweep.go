package main

import (
	"fmt"
	"os"
	"path/filepath"
	"sort"
	"strings"
	"time"
)

// cmdSweep verifies the named functions with their contract if any, else with an empty contract
// (safety obligations only). Development aid and the core of the C17 sweep.
func cmdSweep(args []string) {
	prog, err := LoadProgram("verif")
	if err != nil {
		fmt.Fprintln(os.Stderr, err)
		os.Exit(2)
	}
	defer prog.Cleanup()
	registerRuntimeTypes(prog)
	specs, err := LoadSpecs(prog.RepoDir, filepath.Join(verifDir, "contracts", "extern"))
	if err != nil {
		fmt.Fprintln(os.Stderr, "specs:", err)
		os.Exit(2)
	}
	globalSpecs = specs
	scanROM(prog, NewExec(prog, specs))
	verbose := false
	dump := ""
	cr := &checkRun{prog: prog, specs: specs, abstract: map[string]int{}, assumed: map[string]bool{}, used: map[string]bool{}, smtDir: prog.Scratch, timeoutMs: 10000}
	for _, name := range args {
		if name == "-v" {
			verbose = true
			continue
		}
		if strings.HasPrefix(name, "-dump=") {
			dump = strings.TrimPrefix(name, "-dump=")
			continue
		}
		sp := specs.Funcs[name]
		if i := strings.Index(name, "@"); i > 0 && sp == nil {
			// implementer check: <iface key>@<type or closure>
			if isp := specs.Ifaces[name[:i]]; isp != nil {
				sp = ImplSpec(isp, name[:i], name[i+1:])
			}
		}
		if sp == nil {
			sp = &FuncSpec{Name: name, ModAll: true, Verify: true}
		}
		t0 := time.Now()
		ex := NewExec(prog, specs)
		ex.VerifyFunc(sp)
		fmt.Printf("%s: %d obligations, %d paths, %d steps, %.2fs gen\n", name, len(ex.Obls), ex.Paths, ex.Steps, time.Since(t0).Seconds())
		for _, l := range ex.ToolLimit {
			fmt.Println("   TOOL LIMIT:", l)
		}
		var ks []string
		for k, v := range ex.Abstracted {
			ks = append(ks, fmt.Sprintf("%s (x%d)", k, v))
		}
		sort.Strings(ks)
		for _, k := range ks {
			fmt.Println("   abstracted:", k)
		}
		cr.obls = append(cr.obls, ex.Obls...)
	}
	t0 := time.Now()
	cr.solveAll()
	fmt.Printf("solved in %.1fs\n", time.Since(t0).Seconds())
	if dump != "" {
		os.MkdirAll("/tmp/vcgo-dump", 0755)
		n := 0
		for _, o := range cr.obls {
			if strings.Contains(o.Name, dump) && o.Res != nil && o.Res.SMTText != "" {
				n++
				f := fmt.Sprintf("/tmp/vcgo-dump/%d_%s.smt2", n, o.Res.Status)
				os.WriteFile(f, []byte("; "+o.Name+"\n"+o.Res.SMTText), 0644)
				fmt.Println("dumped", f, o.Res.Tried)
			}
		}
	}
	groups := groupObls(cr.obls)
	cr.vacuityGuard(groups)
	for _, g := range groups {
		if g.Status != "discharged" || verbose {
			fmt.Printf("  %-10s %-8s %6dms %s (%d inst) %s\n", g.Status, g.Solver, g.Ms, g.Name, len(g.Insts), g.Pos)
			if g.Status == "failed" && verbose {
				for _, o := range g.Insts {
					if o.Res.Status == "sat" {
						fmt.Println("        path:", strings.Join(o.Trace, " "))
						for _, k := range sortedKeys(o.Res.Model) {
							fmt.Printf("        %s = %s\n", k, o.Res.Model[k])
						}
						break
					}
				}
			}
		}
	}
}
